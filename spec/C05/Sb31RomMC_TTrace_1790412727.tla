---- MODULE Sb31RomMC_TTrace_1790412727 ----
EXTENDS Sequences, TLCExt, Toolbox, Naturals, TLC, Sb31RomMC

_expression ==
    LET Sb31RomMC_TEExpression == INSTANCE Sb31RomMC_TEExpression
    IN Sb31RomMC_TEExpression!expression
----

_trace ==
    LET Sb31RomMC_TETrace == INSTANCE Sb31RomMC_TETrace
    IN Sb31RomMC_TETrace!trace
----

_inv ==
    ~(
        TLCGet("level") = Len(_TETrace)
        /\
        blk = (2)
        /\
        cur = (16)
        /\
        st = ("Accepted")
        /\
        covTo = (528)
        /\
        evs = (<<[ev |-> "ParseHeader", fileLen |-> 528, totalLen |-> 236, blockCount |-> 1, blockSize |-> 292, certOff |-> 92, magicOk |-> TRUE, major |-> 3, minor |-> 1], [flags |-> <<65535, 65535>>, fw |-> <<4660, 43981>>, ts |-> <<1, 2, 3, 4>>, desc |-> <<65, 66, 67, 68, 69, 70, 71, 72, 73, 74, 75, 76, 77, 78, 79, 80>>, ev |-> "HeaderFields", imageType |-> 6], [ev |-> "Layout", fileLen |-> 528, ok |-> TRUE], [ev |-> "CertHeader", magicOk |-> TRUE, major |-> 2, minor |-> 1, at |-> 92, size |-> 80], [used |-> 0, ev |-> "RootKeyRecord", at |-> 104, nKeys |-> 1, ctype |-> 1, curveLen |-> 32, tableLen |-> 0, keyAt |-> 108, end |-> 172, keyInTable |-> TRUE, rotkthOk |-> TRUE, ca |-> TRUE], [ev |-> "CertBlockEnd", end |-> 172, sizeField |-> 80], [ev |-> "VerifyBlock0", ok |-> TRUE, end |-> 236, sigLen |-> 64, frm |-> 0, to |-> 172, sigAt |-> 172, digestLen |-> 32], [i |-> 1, enc |-> FALSE, ev |-> "Block", at |-> 236, num |-> 1, hashOk |-> TRUE, last |-> TRUE, nextZero |-> TRUE, cipherAt |-> 272, cipherLen |-> 256, kdf |-> [const |-> <<0, 0, 0, 0, 0, 0>>, rightsByte |-> 0, modeByte |-> 16, keyBits |-> 128, opt |-> 32, iters |-> 1], ivZero |-> TRUE], [ev |-> "Section", uid |-> 1, type |-> 1, streamLen |-> 256, len |-> 0, rsvZero |-> TRUE, padZero |-> TRUE], [ev |-> "Accept", end |-> 16, nCmds |-> 0, covEnd |-> 528]>>)
        /\
        rkrEnd = (172)
        /\
        h = ([fileLen |-> 528, totalLen |-> 236, blockCount |-> 1, blockSize |-> 292, certOff |-> 92, hashLen |-> 32])
        /\
        certEnd = (172)
        /\
        inp = ([curve |-> 32, nkeys |-> 1, used |-> 0, isk |-> FALSE, iskCurve |-> 32, udLen |-> 0, udSha |-> "u", constraints |-> <<0, 5>>, pckBits |-> 128, rights |-> 0, enc |-> FALSE, nxp |-> FALSE, flags |-> <<65535, 65535>>, fw |-> <<4660, 43981>>, ts |-> <<1, 2, 3, 4>>, desc |-> <<65, 66, 67, 68, 69, 70, 71, 72, 73, 74, 75, 76, 77, 78, 79, 80, 81>>, cmds |-> <<>>, waive |-> <<>>])
        /\
        k = (11)
        /\
        clean = (FALSE)
        /\
        mut = ("kdf_block_number_from_zero")
        /\
        rootLen = (64)
        /\
        b0Len = (236)
        /\
        secLen = (0)
        /\
        ncmd = (0)
        /\
        ts = (<<1, 2, 3, 4>>)
        /\
        signerLen = (64)
    )
----

_init ==
    /\ covTo = _TETrace[1].covTo
    /\ clean = _TETrace[1].clean
    /\ cur = _TETrace[1].cur
    /\ mut = _TETrace[1].mut
    /\ h = _TETrace[1].h
    /\ rootLen = _TETrace[1].rootLen
    /\ evs = _TETrace[1].evs
    /\ k = _TETrace[1].k
    /\ rkrEnd = _TETrace[1].rkrEnd
    /\ b0Len = _TETrace[1].b0Len
    /\ certEnd = _TETrace[1].certEnd
    /\ secLen = _TETrace[1].secLen
    /\ st = _TETrace[1].st
    /\ ncmd = _TETrace[1].ncmd
    /\ inp = _TETrace[1].inp
    /\ ts = _TETrace[1].ts
    /\ signerLen = _TETrace[1].signerLen
    /\ blk = _TETrace[1].blk
----

_next ==
    /\ \E i,j \in DOMAIN _TETrace:
        /\ \/ /\ j = i + 1
              /\ i = TLCGet("level")
        /\ covTo  = _TETrace[i].covTo
        /\ covTo' = _TETrace[j].covTo
        /\ clean  = _TETrace[i].clean
        /\ clean' = _TETrace[j].clean
        /\ cur  = _TETrace[i].cur
        /\ cur' = _TETrace[j].cur
        /\ mut  = _TETrace[i].mut
        /\ mut' = _TETrace[j].mut
        /\ h  = _TETrace[i].h
        /\ h' = _TETrace[j].h
        /\ rootLen  = _TETrace[i].rootLen
        /\ rootLen' = _TETrace[j].rootLen
        /\ evs  = _TETrace[i].evs
        /\ evs' = _TETrace[j].evs
        /\ k  = _TETrace[i].k
        /\ k' = _TETrace[j].k
        /\ rkrEnd  = _TETrace[i].rkrEnd
        /\ rkrEnd' = _TETrace[j].rkrEnd
        /\ b0Len  = _TETrace[i].b0Len
        /\ b0Len' = _TETrace[j].b0Len
        /\ certEnd  = _TETrace[i].certEnd
        /\ certEnd' = _TETrace[j].certEnd
        /\ secLen  = _TETrace[i].secLen
        /\ secLen' = _TETrace[j].secLen
        /\ st  = _TETrace[i].st
        /\ st' = _TETrace[j].st
        /\ ncmd  = _TETrace[i].ncmd
        /\ ncmd' = _TETrace[j].ncmd
        /\ inp  = _TETrace[i].inp
        /\ inp' = _TETrace[j].inp
        /\ ts  = _TETrace[i].ts
        /\ ts' = _TETrace[j].ts
        /\ signerLen  = _TETrace[i].signerLen
        /\ signerLen' = _TETrace[j].signerLen
        /\ blk  = _TETrace[i].blk
        /\ blk' = _TETrace[j].blk

\* Uncomment the ASSUME below to write the states of the error trace
\* to the given file in Json format. Note that you can pass any tuple
\* to `JsonSerialize`. For example, a sub-sequence of _TETrace.
    \* ASSUME
    \*     LET J == INSTANCE Json
    \*         IN J!JsonSerialize("Sb31RomMC_TTrace_1790412727.json", _TETrace)

=============================================================================

 Note that you can extract this module `Sb31RomMC_TEExpression`
  to a dedicated file to reuse `expression` (the module in the 
  dedicated `Sb31RomMC_TEExpression.tla` file takes precedence 
  over the module `Sb31RomMC_TEExpression` below).

---- MODULE Sb31RomMC_TEExpression ----
EXTENDS Sequences, TLCExt, Toolbox, Naturals, TLC, Sb31RomMC

expression == 
    [
        \* To hide variables of the `Sb31RomMC` spec from the error trace,
        \* remove the variables below.  The trace will be written in the order
        \* of the fields of this record.
        covTo |-> covTo
        ,clean |-> clean
        ,cur |-> cur
        ,mut |-> mut
        ,h |-> h
        ,rootLen |-> rootLen
        ,evs |-> evs
        ,k |-> k
        ,rkrEnd |-> rkrEnd
        ,b0Len |-> b0Len
        ,certEnd |-> certEnd
        ,secLen |-> secLen
        ,st |-> st
        ,ncmd |-> ncmd
        ,inp |-> inp
        ,ts |-> ts
        ,signerLen |-> signerLen
        ,blk |-> blk
        
        \* Put additional constant-, state-, and action-level expressions here:
        \* ,_stateNumber |-> _TEPosition
        \* ,_covToUnchanged |-> covTo = covTo'
        
        \* Format the `covTo` variable as Json value.
        \* ,_covToJson |->
        \*     LET J == INSTANCE Json
        \*     IN J!ToJson(covTo)
        
        \* Lastly, you may build expressions over arbitrary sets of states by
        \* leveraging the _TETrace operator.  For example, this is how to
        \* count the number of times a spec variable changed up to the current
        \* state in the trace.
        \* ,_covToModCount |->
        \*     LET F[s \in DOMAIN _TETrace] ==
        \*         IF s = 1 THEN 0
        \*         ELSE IF _TETrace[s].covTo # _TETrace[s-1].covTo
        \*             THEN 1 + F[s-1] ELSE F[s-1]
        \*     IN F[_TEPosition - 1]
    ]

=============================================================================



Parsing and semantic processing can take forever if the trace below is long.
 In this case, it is advised to uncomment the module below to deserialize the
 trace from a generated binary file.

\*
\*---- MODULE Sb31RomMC_TETrace ----
\*EXTENDS IOUtils, TLC, Sb31RomMC
\*
\*trace == IODeserialize("Sb31RomMC_TTrace_1790412727.bin", TRUE)
\*
\*=============================================================================
\*

---- MODULE Sb31RomMC_TETrace ----
EXTENDS TLC, Sb31RomMC

trace == 
    <<
    ([blk |-> 0,cur |-> 0,st |-> "Header",covTo |-> 0,evs |-> <<[ev |-> "ParseHeader", fileLen |-> 528, totalLen |-> 236, blockCount |-> 1, blockSize |-> 292, certOff |-> 92, magicOk |-> TRUE, major |-> 3, minor |-> 1], [flags |-> <<65535, 65535>>, fw |-> <<4660, 43981>>, ts |-> <<1, 2, 3, 4>>, desc |-> <<65, 66, 67, 68, 69, 70, 71, 72, 73, 74, 75, 76, 77, 78, 79, 80>>, ev |-> "HeaderFields", imageType |-> 6], [ev |-> "Layout", fileLen |-> 528, ok |-> TRUE], [ev |-> "CertHeader", magicOk |-> TRUE, major |-> 2, minor |-> 1, at |-> 92, size |-> 80], [used |-> 0, ev |-> "RootKeyRecord", at |-> 104, nKeys |-> 1, ctype |-> 1, curveLen |-> 32, tableLen |-> 0, keyAt |-> 108, end |-> 172, keyInTable |-> TRUE, rotkthOk |-> TRUE, ca |-> TRUE], [ev |-> "CertBlockEnd", end |-> 172, sizeField |-> 80], [ev |-> "VerifyBlock0", ok |-> TRUE, end |-> 236, sigLen |-> 64, frm |-> 0, to |-> 172, sigAt |-> 172, digestLen |-> 32], [i |-> 1, enc |-> FALSE, ev |-> "Block", at |-> 236, num |-> 1, hashOk |-> TRUE, last |-> TRUE, nextZero |-> TRUE, cipherAt |-> 272, cipherLen |-> 256, kdf |-> [const |-> <<0, 0, 0, 0, 0, 0>>, rightsByte |-> 0, modeByte |-> 16, keyBits |-> 128, opt |-> 32, iters |-> 1], ivZero |-> TRUE], [ev |-> "Section", uid |-> 1, type |-> 1, streamLen |-> 256, len |-> 0, rsvZero |-> TRUE, padZero |-> TRUE], [ev |-> "Accept", end |-> 16, nCmds |-> 0, covEnd |-> 528]>>,rkrEnd |-> 0,h |-> [fileLen |-> 0, totalLen |-> 0, blockCount |-> 0, blockSize |-> 0, certOff |-> 0, hashLen |-> 0],certEnd |-> 0,inp |-> [curve |-> 32, nkeys |-> 1, used |-> 0, isk |-> FALSE, iskCurve |-> 32, udLen |-> 0, udSha |-> "u", constraints |-> <<0, 5>>, pckBits |-> 128, rights |-> 0, enc |-> FALSE, nxp |-> FALSE, flags |-> <<65535, 65535>>, fw |-> <<4660, 43981>>, ts |-> <<1, 2, 3, 4>>, desc |-> <<65, 66, 67, 68, 69, 70, 71, 72, 73, 74, 75, 76, 77, 78, 79, 80, 81>>, cmds |-> <<>>, waive |-> <<>>],k |-> 1,clean |-> FALSE,mut |-> "kdf_block_number_from_zero",rootLen |-> 0,b0Len |-> 0,secLen |-> 0,ncmd |-> 0,ts |-> <<0, 0, 0, 0>>,signerLen |-> 0]),
    ([blk |-> 0,cur |-> 0,st |-> "HeaderFields",covTo |-> 0,evs |-> <<[ev |-> "ParseHeader", fileLen |-> 528, totalLen |-> 236, blockCount |-> 1, blockSize |-> 292, certOff |-> 92, magicOk |-> TRUE, major |-> 3, minor |-> 1], [flags |-> <<65535, 65535>>, fw |-> <<4660, 43981>>, ts |-> <<1, 2, 3, 4>>, desc |-> <<65, 66, 67, 68, 69, 70, 71, 72, 73, 74, 75, 76, 77, 78, 79, 80>>, ev |-> "HeaderFields", imageType |-> 6], [ev |-> "Layout", fileLen |-> 528, ok |-> TRUE], [ev |-> "CertHeader", magicOk |-> TRUE, major |-> 2, minor |-> 1, at |-> 92, size |-> 80], [used |-> 0, ev |-> "RootKeyRecord", at |-> 104, nKeys |-> 1, ctype |-> 1, curveLen |-> 32, tableLen |-> 0, keyAt |-> 108, end |-> 172, keyInTable |-> TRUE, rotkthOk |-> TRUE, ca |-> TRUE], [ev |-> "CertBlockEnd", end |-> 172, sizeField |-> 80], [ev |-> "VerifyBlock0", ok |-> TRUE, end |-> 236, sigLen |-> 64, frm |-> 0, to |-> 172, sigAt |-> 172, digestLen |-> 32], [i |-> 1, enc |-> FALSE, ev |-> "Block", at |-> 236, num |-> 1, hashOk |-> TRUE, last |-> TRUE, nextZero |-> TRUE, cipherAt |-> 272, cipherLen |-> 256, kdf |-> [const |-> <<0, 0, 0, 0, 0, 0>>, rightsByte |-> 0, modeByte |-> 16, keyBits |-> 128, opt |-> 32, iters |-> 1], ivZero |-> TRUE], [ev |-> "Section", uid |-> 1, type |-> 1, streamLen |-> 256, len |-> 0, rsvZero |-> TRUE, padZero |-> TRUE], [ev |-> "Accept", end |-> 16, nCmds |-> 0, covEnd |-> 528]>>,rkrEnd |-> 0,h |-> [fileLen |-> 528, totalLen |-> 236, blockCount |-> 1, blockSize |-> 292, certOff |-> 92, hashLen |-> 32],certEnd |-> 0,inp |-> [curve |-> 32, nkeys |-> 1, used |-> 0, isk |-> FALSE, iskCurve |-> 32, udLen |-> 0, udSha |-> "u", constraints |-> <<0, 5>>, pckBits |-> 128, rights |-> 0, enc |-> FALSE, nxp |-> FALSE, flags |-> <<65535, 65535>>, fw |-> <<4660, 43981>>, ts |-> <<1, 2, 3, 4>>, desc |-> <<65, 66, 67, 68, 69, 70, 71, 72, 73, 74, 75, 76, 77, 78, 79, 80, 81>>, cmds |-> <<>>, waive |-> <<>>],k |-> 2,clean |-> FALSE,mut |-> "kdf_block_number_from_zero",rootLen |-> 0,b0Len |-> 0,secLen |-> 0,ncmd |-> 0,ts |-> <<0, 0, 0, 0>>,signerLen |-> 0]),
    ([blk |-> 0,cur |-> 0,st |-> "Layout",covTo |-> 0,evs |-> <<[ev |-> "ParseHeader", fileLen |-> 528, totalLen |-> 236, blockCount |-> 1, blockSize |-> 292, certOff |-> 92, magicOk |-> TRUE, major |-> 3, minor |-> 1], [flags |-> <<65535, 65535>>, fw |-> <<4660, 43981>>, ts |-> <<1, 2, 3, 4>>, desc |-> <<65, 66, 67, 68, 69, 70, 71, 72, 73, 74, 75, 76, 77, 78, 79, 80>>, ev |-> "HeaderFields", imageType |-> 6], [ev |-> "Layout", fileLen |-> 528, ok |-> TRUE], [ev |-> "CertHeader", magicOk |-> TRUE, major |-> 2, minor |-> 1, at |-> 92, size |-> 80], [used |-> 0, ev |-> "RootKeyRecord", at |-> 104, nKeys |-> 1, ctype |-> 1, curveLen |-> 32, tableLen |-> 0, keyAt |-> 108, end |-> 172, keyInTable |-> TRUE, rotkthOk |-> TRUE, ca |-> TRUE], [ev |-> "CertBlockEnd", end |-> 172, sizeField |-> 80], [ev |-> "VerifyBlock0", ok |-> TRUE, end |-> 236, sigLen |-> 64, frm |-> 0, to |-> 172, sigAt |-> 172, digestLen |-> 32], [i |-> 1, enc |-> FALSE, ev |-> "Block", at |-> 236, num |-> 1, hashOk |-> TRUE, last |-> TRUE, nextZero |-> TRUE, cipherAt |-> 272, cipherLen |-> 256, kdf |-> [const |-> <<0, 0, 0, 0, 0, 0>>, rightsByte |-> 0, modeByte |-> 16, keyBits |-> 128, opt |-> 32, iters |-> 1], ivZero |-> TRUE], [ev |-> "Section", uid |-> 1, type |-> 1, streamLen |-> 256, len |-> 0, rsvZero |-> TRUE, padZero |-> TRUE], [ev |-> "Accept", end |-> 16, nCmds |-> 0, covEnd |-> 528]>>,rkrEnd |-> 0,h |-> [fileLen |-> 528, totalLen |-> 236, blockCount |-> 1, blockSize |-> 292, certOff |-> 92, hashLen |-> 32],certEnd |-> 0,inp |-> [curve |-> 32, nkeys |-> 1, used |-> 0, isk |-> FALSE, iskCurve |-> 32, udLen |-> 0, udSha |-> "u", constraints |-> <<0, 5>>, pckBits |-> 128, rights |-> 0, enc |-> FALSE, nxp |-> FALSE, flags |-> <<65535, 65535>>, fw |-> <<4660, 43981>>, ts |-> <<1, 2, 3, 4>>, desc |-> <<65, 66, 67, 68, 69, 70, 71, 72, 73, 74, 75, 76, 77, 78, 79, 80, 81>>, cmds |-> <<>>, waive |-> <<>>],k |-> 3,clean |-> FALSE,mut |-> "kdf_block_number_from_zero",rootLen |-> 0,b0Len |-> 0,secLen |-> 0,ncmd |-> 0,ts |-> <<1, 2, 3, 4>>,signerLen |-> 0]),
    ([blk |-> 0,cur |-> 0,st |-> "CertHeader",covTo |-> 0,evs |-> <<[ev |-> "ParseHeader", fileLen |-> 528, totalLen |-> 236, blockCount |-> 1, blockSize |-> 292, certOff |-> 92, magicOk |-> TRUE, major |-> 3, minor |-> 1], [flags |-> <<65535, 65535>>, fw |-> <<4660, 43981>>, ts |-> <<1, 2, 3, 4>>, desc |-> <<65, 66, 67, 68, 69, 70, 71, 72, 73, 74, 75, 76, 77, 78, 79, 80>>, ev |-> "HeaderFields", imageType |-> 6], [ev |-> "Layout", fileLen |-> 528, ok |-> TRUE], [ev |-> "CertHeader", magicOk |-> TRUE, major |-> 2, minor |-> 1, at |-> 92, size |-> 80], [used |-> 0, ev |-> "RootKeyRecord", at |-> 104, nKeys |-> 1, ctype |-> 1, curveLen |-> 32, tableLen |-> 0, keyAt |-> 108, end |-> 172, keyInTable |-> TRUE, rotkthOk |-> TRUE, ca |-> TRUE], [ev |-> "CertBlockEnd", end |-> 172, sizeField |-> 80], [ev |-> "VerifyBlock0", ok |-> TRUE, end |-> 236, sigLen |-> 64, frm |-> 0, to |-> 172, sigAt |-> 172, digestLen |-> 32], [i |-> 1, enc |-> FALSE, ev |-> "Block", at |-> 236, num |-> 1, hashOk |-> TRUE, last |-> TRUE, nextZero |-> TRUE, cipherAt |-> 272, cipherLen |-> 256, kdf |-> [const |-> <<0, 0, 0, 0, 0, 0>>, rightsByte |-> 0, modeByte |-> 16, keyBits |-> 128, opt |-> 32, iters |-> 1], ivZero |-> TRUE], [ev |-> "Section", uid |-> 1, type |-> 1, streamLen |-> 256, len |-> 0, rsvZero |-> TRUE, padZero |-> TRUE], [ev |-> "Accept", end |-> 16, nCmds |-> 0, covEnd |-> 528]>>,rkrEnd |-> 0,h |-> [fileLen |-> 528, totalLen |-> 236, blockCount |-> 1, blockSize |-> 292, certOff |-> 92, hashLen |-> 32],certEnd |-> 0,inp |-> [curve |-> 32, nkeys |-> 1, used |-> 0, isk |-> FALSE, iskCurve |-> 32, udLen |-> 0, udSha |-> "u", constraints |-> <<0, 5>>, pckBits |-> 128, rights |-> 0, enc |-> FALSE, nxp |-> FALSE, flags |-> <<65535, 65535>>, fw |-> <<4660, 43981>>, ts |-> <<1, 2, 3, 4>>, desc |-> <<65, 66, 67, 68, 69, 70, 71, 72, 73, 74, 75, 76, 77, 78, 79, 80, 81>>, cmds |-> <<>>, waive |-> <<>>],k |-> 4,clean |-> FALSE,mut |-> "kdf_block_number_from_zero",rootLen |-> 0,b0Len |-> 236,secLen |-> 0,ncmd |-> 0,ts |-> <<1, 2, 3, 4>>,signerLen |-> 0]),
    ([blk |-> 0,cur |-> 0,st |-> "Rkr",covTo |-> 0,evs |-> <<[ev |-> "ParseHeader", fileLen |-> 528, totalLen |-> 236, blockCount |-> 1, blockSize |-> 292, certOff |-> 92, magicOk |-> TRUE, major |-> 3, minor |-> 1], [flags |-> <<65535, 65535>>, fw |-> <<4660, 43981>>, ts |-> <<1, 2, 3, 4>>, desc |-> <<65, 66, 67, 68, 69, 70, 71, 72, 73, 74, 75, 76, 77, 78, 79, 80>>, ev |-> "HeaderFields", imageType |-> 6], [ev |-> "Layout", fileLen |-> 528, ok |-> TRUE], [ev |-> "CertHeader", magicOk |-> TRUE, major |-> 2, minor |-> 1, at |-> 92, size |-> 80], [used |-> 0, ev |-> "RootKeyRecord", at |-> 104, nKeys |-> 1, ctype |-> 1, curveLen |-> 32, tableLen |-> 0, keyAt |-> 108, end |-> 172, keyInTable |-> TRUE, rotkthOk |-> TRUE, ca |-> TRUE], [ev |-> "CertBlockEnd", end |-> 172, sizeField |-> 80], [ev |-> "VerifyBlock0", ok |-> TRUE, end |-> 236, sigLen |-> 64, frm |-> 0, to |-> 172, sigAt |-> 172, digestLen |-> 32], [i |-> 1, enc |-> FALSE, ev |-> "Block", at |-> 236, num |-> 1, hashOk |-> TRUE, last |-> TRUE, nextZero |-> TRUE, cipherAt |-> 272, cipherLen |-> 256, kdf |-> [const |-> <<0, 0, 0, 0, 0, 0>>, rightsByte |-> 0, modeByte |-> 16, keyBits |-> 128, opt |-> 32, iters |-> 1], ivZero |-> TRUE], [ev |-> "Section", uid |-> 1, type |-> 1, streamLen |-> 256, len |-> 0, rsvZero |-> TRUE, padZero |-> TRUE], [ev |-> "Accept", end |-> 16, nCmds |-> 0, covEnd |-> 528]>>,rkrEnd |-> 0,h |-> [fileLen |-> 528, totalLen |-> 236, blockCount |-> 1, blockSize |-> 292, certOff |-> 92, hashLen |-> 32],certEnd |-> 0,inp |-> [curve |-> 32, nkeys |-> 1, used |-> 0, isk |-> FALSE, iskCurve |-> 32, udLen |-> 0, udSha |-> "u", constraints |-> <<0, 5>>, pckBits |-> 128, rights |-> 0, enc |-> FALSE, nxp |-> FALSE, flags |-> <<65535, 65535>>, fw |-> <<4660, 43981>>, ts |-> <<1, 2, 3, 4>>, desc |-> <<65, 66, 67, 68, 69, 70, 71, 72, 73, 74, 75, 76, 77, 78, 79, 80, 81>>, cmds |-> <<>>, waive |-> <<>>],k |-> 5,clean |-> FALSE,mut |-> "kdf_block_number_from_zero",rootLen |-> 0,b0Len |-> 236,secLen |-> 0,ncmd |-> 0,ts |-> <<1, 2, 3, 4>>,signerLen |-> 0]),
    ([blk |-> 0,cur |-> 0,st |-> "CertEnd",covTo |-> 0,evs |-> <<[ev |-> "ParseHeader", fileLen |-> 528, totalLen |-> 236, blockCount |-> 1, blockSize |-> 292, certOff |-> 92, magicOk |-> TRUE, major |-> 3, minor |-> 1], [flags |-> <<65535, 65535>>, fw |-> <<4660, 43981>>, ts |-> <<1, 2, 3, 4>>, desc |-> <<65, 66, 67, 68, 69, 70, 71, 72, 73, 74, 75, 76, 77, 78, 79, 80>>, ev |-> "HeaderFields", imageType |-> 6], [ev |-> "Layout", fileLen |-> 528, ok |-> TRUE], [ev |-> "CertHeader", magicOk |-> TRUE, major |-> 2, minor |-> 1, at |-> 92, size |-> 80], [used |-> 0, ev |-> "RootKeyRecord", at |-> 104, nKeys |-> 1, ctype |-> 1, curveLen |-> 32, tableLen |-> 0, keyAt |-> 108, end |-> 172, keyInTable |-> TRUE, rotkthOk |-> TRUE, ca |-> TRUE], [ev |-> "CertBlockEnd", end |-> 172, sizeField |-> 80], [ev |-> "VerifyBlock0", ok |-> TRUE, end |-> 236, sigLen |-> 64, frm |-> 0, to |-> 172, sigAt |-> 172, digestLen |-> 32], [i |-> 1, enc |-> FALSE, ev |-> "Block", at |-> 236, num |-> 1, hashOk |-> TRUE, last |-> TRUE, nextZero |-> TRUE, cipherAt |-> 272, cipherLen |-> 256, kdf |-> [const |-> <<0, 0, 0, 0, 0, 0>>, rightsByte |-> 0, modeByte |-> 16, keyBits |-> 128, opt |-> 32, iters |-> 1], ivZero |-> TRUE], [ev |-> "Section", uid |-> 1, type |-> 1, streamLen |-> 256, len |-> 0, rsvZero |-> TRUE, padZero |-> TRUE], [ev |-> "Accept", end |-> 16, nCmds |-> 0, covEnd |-> 528]>>,rkrEnd |-> 172,h |-> [fileLen |-> 528, totalLen |-> 236, blockCount |-> 1, blockSize |-> 292, certOff |-> 92, hashLen |-> 32],certEnd |-> 172,inp |-> [curve |-> 32, nkeys |-> 1, used |-> 0, isk |-> FALSE, iskCurve |-> 32, udLen |-> 0, udSha |-> "u", constraints |-> <<0, 5>>, pckBits |-> 128, rights |-> 0, enc |-> FALSE, nxp |-> FALSE, flags |-> <<65535, 65535>>, fw |-> <<4660, 43981>>, ts |-> <<1, 2, 3, 4>>, desc |-> <<65, 66, 67, 68, 69, 70, 71, 72, 73, 74, 75, 76, 77, 78, 79, 80, 81>>, cmds |-> <<>>, waive |-> <<>>],k |-> 6,clean |-> FALSE,mut |-> "kdf_block_number_from_zero",rootLen |-> 64,b0Len |-> 236,secLen |-> 0,ncmd |-> 0,ts |-> <<1, 2, 3, 4>>,signerLen |-> 64]),
    ([blk |-> 0,cur |-> 0,st |-> "Block0",covTo |-> 0,evs |-> <<[ev |-> "ParseHeader", fileLen |-> 528, totalLen |-> 236, blockCount |-> 1, blockSize |-> 292, certOff |-> 92, magicOk |-> TRUE, major |-> 3, minor |-> 1], [flags |-> <<65535, 65535>>, fw |-> <<4660, 43981>>, ts |-> <<1, 2, 3, 4>>, desc |-> <<65, 66, 67, 68, 69, 70, 71, 72, 73, 74, 75, 76, 77, 78, 79, 80>>, ev |-> "HeaderFields", imageType |-> 6], [ev |-> "Layout", fileLen |-> 528, ok |-> TRUE], [ev |-> "CertHeader", magicOk |-> TRUE, major |-> 2, minor |-> 1, at |-> 92, size |-> 80], [used |-> 0, ev |-> "RootKeyRecord", at |-> 104, nKeys |-> 1, ctype |-> 1, curveLen |-> 32, tableLen |-> 0, keyAt |-> 108, end |-> 172, keyInTable |-> TRUE, rotkthOk |-> TRUE, ca |-> TRUE], [ev |-> "CertBlockEnd", end |-> 172, sizeField |-> 80], [ev |-> "VerifyBlock0", ok |-> TRUE, end |-> 236, sigLen |-> 64, frm |-> 0, to |-> 172, sigAt |-> 172, digestLen |-> 32], [i |-> 1, enc |-> FALSE, ev |-> "Block", at |-> 236, num |-> 1, hashOk |-> TRUE, last |-> TRUE, nextZero |-> TRUE, cipherAt |-> 272, cipherLen |-> 256, kdf |-> [const |-> <<0, 0, 0, 0, 0, 0>>, rightsByte |-> 0, modeByte |-> 16, keyBits |-> 128, opt |-> 32, iters |-> 1], ivZero |-> TRUE], [ev |-> "Section", uid |-> 1, type |-> 1, streamLen |-> 256, len |-> 0, rsvZero |-> TRUE, padZero |-> TRUE], [ev |-> "Accept", end |-> 16, nCmds |-> 0, covEnd |-> 528]>>,rkrEnd |-> 172,h |-> [fileLen |-> 528, totalLen |-> 236, blockCount |-> 1, blockSize |-> 292, certOff |-> 92, hashLen |-> 32],certEnd |-> 172,inp |-> [curve |-> 32, nkeys |-> 1, used |-> 0, isk |-> FALSE, iskCurve |-> 32, udLen |-> 0, udSha |-> "u", constraints |-> <<0, 5>>, pckBits |-> 128, rights |-> 0, enc |-> FALSE, nxp |-> FALSE, flags |-> <<65535, 65535>>, fw |-> <<4660, 43981>>, ts |-> <<1, 2, 3, 4>>, desc |-> <<65, 66, 67, 68, 69, 70, 71, 72, 73, 74, 75, 76, 77, 78, 79, 80, 81>>, cmds |-> <<>>, waive |-> <<>>],k |-> 7,clean |-> FALSE,mut |-> "kdf_block_number_from_zero",rootLen |-> 64,b0Len |-> 236,secLen |-> 0,ncmd |-> 0,ts |-> <<1, 2, 3, 4>>,signerLen |-> 64]),
    ([blk |-> 1,cur |-> 0,st |-> "Chain",covTo |-> 236,evs |-> <<[ev |-> "ParseHeader", fileLen |-> 528, totalLen |-> 236, blockCount |-> 1, blockSize |-> 292, certOff |-> 92, magicOk |-> TRUE, major |-> 3, minor |-> 1], [flags |-> <<65535, 65535>>, fw |-> <<4660, 43981>>, ts |-> <<1, 2, 3, 4>>, desc |-> <<65, 66, 67, 68, 69, 70, 71, 72, 73, 74, 75, 76, 77, 78, 79, 80>>, ev |-> "HeaderFields", imageType |-> 6], [ev |-> "Layout", fileLen |-> 528, ok |-> TRUE], [ev |-> "CertHeader", magicOk |-> TRUE, major |-> 2, minor |-> 1, at |-> 92, size |-> 80], [used |-> 0, ev |-> "RootKeyRecord", at |-> 104, nKeys |-> 1, ctype |-> 1, curveLen |-> 32, tableLen |-> 0, keyAt |-> 108, end |-> 172, keyInTable |-> TRUE, rotkthOk |-> TRUE, ca |-> TRUE], [ev |-> "CertBlockEnd", end |-> 172, sizeField |-> 80], [ev |-> "VerifyBlock0", ok |-> TRUE, end |-> 236, sigLen |-> 64, frm |-> 0, to |-> 172, sigAt |-> 172, digestLen |-> 32], [i |-> 1, enc |-> FALSE, ev |-> "Block", at |-> 236, num |-> 1, hashOk |-> TRUE, last |-> TRUE, nextZero |-> TRUE, cipherAt |-> 272, cipherLen |-> 256, kdf |-> [const |-> <<0, 0, 0, 0, 0, 0>>, rightsByte |-> 0, modeByte |-> 16, keyBits |-> 128, opt |-> 32, iters |-> 1], ivZero |-> TRUE], [ev |-> "Section", uid |-> 1, type |-> 1, streamLen |-> 256, len |-> 0, rsvZero |-> TRUE, padZero |-> TRUE], [ev |-> "Accept", end |-> 16, nCmds |-> 0, covEnd |-> 528]>>,rkrEnd |-> 172,h |-> [fileLen |-> 528, totalLen |-> 236, blockCount |-> 1, blockSize |-> 292, certOff |-> 92, hashLen |-> 32],certEnd |-> 172,inp |-> [curve |-> 32, nkeys |-> 1, used |-> 0, isk |-> FALSE, iskCurve |-> 32, udLen |-> 0, udSha |-> "u", constraints |-> <<0, 5>>, pckBits |-> 128, rights |-> 0, enc |-> FALSE, nxp |-> FALSE, flags |-> <<65535, 65535>>, fw |-> <<4660, 43981>>, ts |-> <<1, 2, 3, 4>>, desc |-> <<65, 66, 67, 68, 69, 70, 71, 72, 73, 74, 75, 76, 77, 78, 79, 80, 81>>, cmds |-> <<>>, waive |-> <<>>],k |-> 8,clean |-> FALSE,mut |-> "kdf_block_number_from_zero",rootLen |-> 64,b0Len |-> 236,secLen |-> 0,ncmd |-> 0,ts |-> <<1, 2, 3, 4>>,signerLen |-> 64]),
    ([blk |-> 2,cur |-> 0,st |-> "Section",covTo |-> 528,evs |-> <<[ev |-> "ParseHeader", fileLen |-> 528, totalLen |-> 236, blockCount |-> 1, blockSize |-> 292, certOff |-> 92, magicOk |-> TRUE, major |-> 3, minor |-> 1], [flags |-> <<65535, 65535>>, fw |-> <<4660, 43981>>, ts |-> <<1, 2, 3, 4>>, desc |-> <<65, 66, 67, 68, 69, 70, 71, 72, 73, 74, 75, 76, 77, 78, 79, 80>>, ev |-> "HeaderFields", imageType |-> 6], [ev |-> "Layout", fileLen |-> 528, ok |-> TRUE], [ev |-> "CertHeader", magicOk |-> TRUE, major |-> 2, minor |-> 1, at |-> 92, size |-> 80], [used |-> 0, ev |-> "RootKeyRecord", at |-> 104, nKeys |-> 1, ctype |-> 1, curveLen |-> 32, tableLen |-> 0, keyAt |-> 108, end |-> 172, keyInTable |-> TRUE, rotkthOk |-> TRUE, ca |-> TRUE], [ev |-> "CertBlockEnd", end |-> 172, sizeField |-> 80], [ev |-> "VerifyBlock0", ok |-> TRUE, end |-> 236, sigLen |-> 64, frm |-> 0, to |-> 172, sigAt |-> 172, digestLen |-> 32], [i |-> 1, enc |-> FALSE, ev |-> "Block", at |-> 236, num |-> 1, hashOk |-> TRUE, last |-> TRUE, nextZero |-> TRUE, cipherAt |-> 272, cipherLen |-> 256, kdf |-> [const |-> <<0, 0, 0, 0, 0, 0>>, rightsByte |-> 0, modeByte |-> 16, keyBits |-> 128, opt |-> 32, iters |-> 1], ivZero |-> TRUE], [ev |-> "Section", uid |-> 1, type |-> 1, streamLen |-> 256, len |-> 0, rsvZero |-> TRUE, padZero |-> TRUE], [ev |-> "Accept", end |-> 16, nCmds |-> 0, covEnd |-> 528]>>,rkrEnd |-> 172,h |-> [fileLen |-> 528, totalLen |-> 236, blockCount |-> 1, blockSize |-> 292, certOff |-> 92, hashLen |-> 32],certEnd |-> 172,inp |-> [curve |-> 32, nkeys |-> 1, used |-> 0, isk |-> FALSE, iskCurve |-> 32, udLen |-> 0, udSha |-> "u", constraints |-> <<0, 5>>, pckBits |-> 128, rights |-> 0, enc |-> FALSE, nxp |-> FALSE, flags |-> <<65535, 65535>>, fw |-> <<4660, 43981>>, ts |-> <<1, 2, 3, 4>>, desc |-> <<65, 66, 67, 68, 69, 70, 71, 72, 73, 74, 75, 76, 77, 78, 79, 80, 81>>, cmds |-> <<>>, waive |-> <<>>],k |-> 9,clean |-> FALSE,mut |-> "kdf_block_number_from_zero",rootLen |-> 64,b0Len |-> 236,secLen |-> 0,ncmd |-> 0,ts |-> <<1, 2, 3, 4>>,signerLen |-> 64]),
    ([blk |-> 2,cur |-> 16,st |-> "Cmd",covTo |-> 528,evs |-> <<[ev |-> "ParseHeader", fileLen |-> 528, totalLen |-> 236, blockCount |-> 1, blockSize |-> 292, certOff |-> 92, magicOk |-> TRUE, major |-> 3, minor |-> 1], [flags |-> <<65535, 65535>>, fw |-> <<4660, 43981>>, ts |-> <<1, 2, 3, 4>>, desc |-> <<65, 66, 67, 68, 69, 70, 71, 72, 73, 74, 75, 76, 77, 78, 79, 80>>, ev |-> "HeaderFields", imageType |-> 6], [ev |-> "Layout", fileLen |-> 528, ok |-> TRUE], [ev |-> "CertHeader", magicOk |-> TRUE, major |-> 2, minor |-> 1, at |-> 92, size |-> 80], [used |-> 0, ev |-> "RootKeyRecord", at |-> 104, nKeys |-> 1, ctype |-> 1, curveLen |-> 32, tableLen |-> 0, keyAt |-> 108, end |-> 172, keyInTable |-> TRUE, rotkthOk |-> TRUE, ca |-> TRUE], [ev |-> "CertBlockEnd", end |-> 172, sizeField |-> 80], [ev |-> "VerifyBlock0", ok |-> TRUE, end |-> 236, sigLen |-> 64, frm |-> 0, to |-> 172, sigAt |-> 172, digestLen |-> 32], [i |-> 1, enc |-> FALSE, ev |-> "Block", at |-> 236, num |-> 1, hashOk |-> TRUE, last |-> TRUE, nextZero |-> TRUE, cipherAt |-> 272, cipherLen |-> 256, kdf |-> [const |-> <<0, 0, 0, 0, 0, 0>>, rightsByte |-> 0, modeByte |-> 16, keyBits |-> 128, opt |-> 32, iters |-> 1], ivZero |-> TRUE], [ev |-> "Section", uid |-> 1, type |-> 1, streamLen |-> 256, len |-> 0, rsvZero |-> TRUE, padZero |-> TRUE], [ev |-> "Accept", end |-> 16, nCmds |-> 0, covEnd |-> 528]>>,rkrEnd |-> 172,h |-> [fileLen |-> 528, totalLen |-> 236, blockCount |-> 1, blockSize |-> 292, certOff |-> 92, hashLen |-> 32],certEnd |-> 172,inp |-> [curve |-> 32, nkeys |-> 1, used |-> 0, isk |-> FALSE, iskCurve |-> 32, udLen |-> 0, udSha |-> "u", constraints |-> <<0, 5>>, pckBits |-> 128, rights |-> 0, enc |-> FALSE, nxp |-> FALSE, flags |-> <<65535, 65535>>, fw |-> <<4660, 43981>>, ts |-> <<1, 2, 3, 4>>, desc |-> <<65, 66, 67, 68, 69, 70, 71, 72, 73, 74, 75, 76, 77, 78, 79, 80, 81>>, cmds |-> <<>>, waive |-> <<>>],k |-> 10,clean |-> FALSE,mut |-> "kdf_block_number_from_zero",rootLen |-> 64,b0Len |-> 236,secLen |-> 0,ncmd |-> 0,ts |-> <<1, 2, 3, 4>>,signerLen |-> 64]),
    ([blk |-> 2,cur |-> 16,st |-> "Accepted",covTo |-> 528,evs |-> <<[ev |-> "ParseHeader", fileLen |-> 528, totalLen |-> 236, blockCount |-> 1, blockSize |-> 292, certOff |-> 92, magicOk |-> TRUE, major |-> 3, minor |-> 1], [flags |-> <<65535, 65535>>, fw |-> <<4660, 43981>>, ts |-> <<1, 2, 3, 4>>, desc |-> <<65, 66, 67, 68, 69, 70, 71, 72, 73, 74, 75, 76, 77, 78, 79, 80>>, ev |-> "HeaderFields", imageType |-> 6], [ev |-> "Layout", fileLen |-> 528, ok |-> TRUE], [ev |-> "CertHeader", magicOk |-> TRUE, major |-> 2, minor |-> 1, at |-> 92, size |-> 80], [used |-> 0, ev |-> "RootKeyRecord", at |-> 104, nKeys |-> 1, ctype |-> 1, curveLen |-> 32, tableLen |-> 0, keyAt |-> 108, end |-> 172, keyInTable |-> TRUE, rotkthOk |-> TRUE, ca |-> TRUE], [ev |-> "CertBlockEnd", end |-> 172, sizeField |-> 80], [ev |-> "VerifyBlock0", ok |-> TRUE, end |-> 236, sigLen |-> 64, frm |-> 0, to |-> 172, sigAt |-> 172, digestLen |-> 32], [i |-> 1, enc |-> FALSE, ev |-> "Block", at |-> 236, num |-> 1, hashOk |-> TRUE, last |-> TRUE, nextZero |-> TRUE, cipherAt |-> 272, cipherLen |-> 256, kdf |-> [const |-> <<0, 0, 0, 0, 0, 0>>, rightsByte |-> 0, modeByte |-> 16, keyBits |-> 128, opt |-> 32, iters |-> 1], ivZero |-> TRUE], [ev |-> "Section", uid |-> 1, type |-> 1, streamLen |-> 256, len |-> 0, rsvZero |-> TRUE, padZero |-> TRUE], [ev |-> "Accept", end |-> 16, nCmds |-> 0, covEnd |-> 528]>>,rkrEnd |-> 172,h |-> [fileLen |-> 528, totalLen |-> 236, blockCount |-> 1, blockSize |-> 292, certOff |-> 92, hashLen |-> 32],certEnd |-> 172,inp |-> [curve |-> 32, nkeys |-> 1, used |-> 0, isk |-> FALSE, iskCurve |-> 32, udLen |-> 0, udSha |-> "u", constraints |-> <<0, 5>>, pckBits |-> 128, rights |-> 0, enc |-> FALSE, nxp |-> FALSE, flags |-> <<65535, 65535>>, fw |-> <<4660, 43981>>, ts |-> <<1, 2, 3, 4>>, desc |-> <<65, 66, 67, 68, 69, 70, 71, 72, 73, 74, 75, 76, 77, 78, 79, 80, 81>>, cmds |-> <<>>, waive |-> <<>>],k |-> 11,clean |-> FALSE,mut |-> "kdf_block_number_from_zero",rootLen |-> 64,b0Len |-> 236,secLen |-> 0,ncmd |-> 0,ts |-> <<1, 2, 3, 4>>,signerLen |-> 64])
    >>
----


=============================================================================

---- CONFIG Sb31RomMC_TTrace_1790412727 ----

INVARIANT
    _inv

CHECK_DEADLOCK
    \* CHECK_DEADLOCK off because of PROPERTY or INVARIANT above.
    FALSE

INIT
    _init

NEXT
    _next

CONSTANT
    _TETrace <- _trace

ALIAS
    _expression
=============================================================================
\* Generated on Sat Sep 26 08:54:46 UTC 2026