------------------------------ MODULE Sb31RomMC ------------------------------
(* MC form of C05: the loader automaton Sb31Rom fed with the events of the documented construction (Sb31Build), for  *)
(* all abstract inputs of a small menu and every construction mistake of the menu.                                   *)
(*   Complete : a clean construction is never stuck before Accepted          (deadlock check; no false alarm)        *)
(*   Sound    : Accepted only if the events are those of the clean construction (every effective mistake rejected)   *)
(*   Covered  : Accepted => the authenticated prefix is the whole file, all commands supplied were decoded           *)
(*   Located  : Accepted => header fields equal the real positions                                                    *)
EXTENDS Sb31Rom, Sb31Build, IOUtils
VARIABLES evs, k, mut, clean
vars == <<rvars, evs, k, mut, clean>>
Level == atoi(IOEnv.MC_LEVEL)

A == <<4660, 43981>>       \* 0x1234ABCD
B == <<65535, 65535>>      \* 0xFFFFFFFF
Cm(t, a, n, x1, x2, x3, dl) == [t |-> t, a |-> a, n |-> n, x1 |-> x1, x2 |-> x2, x3 |-> x3, dlen |-> dl, dsha |-> IF t \in DataCmds THEN "d" ELSE ""]
CmdMenu == {Cm(1, A, B, <<0, 1>>, Z, Z, 0), Cm(3, A, Z, Z, Z, Z, 0), Cm(4, B, Z, Z, Z, Z, 0), Cm(8, A, <<0, 16>>, B, <<0, 1>>, <<0, 2>>, 0),
            Cm(10, <<0, 4>>, Z, <<0, 17>>, Z, Z, 48), Cm(11, A, Z, <<0, 9>>, Z, Z, 0), Cm(12, A, <<0, 64>>, B, Z, Z, 0),
            Cm(13, <<0, 3>>, Z, <<0, 2>>, Z, Z, 0), Cm(14, Z, Z, Z, Z, Z, 0)}
           \cup {Cm(t, A, Z, <<0, 2>>, Z, Z, dl) : t \in {2, 7, 9}, dl \in {1, 16, 193}}
           \cup {Cm(2, A, Z, Z, Z, Z, dl) : dl \in {0, 208, 209, 480}}
           \cup {Cm(5, <<0, 8>>, Z, Z, Z, Z, dl) : dl \in {4, 20}}
           \cup {Cm(6, A, Z, Z, Z, Z, dl) : dl \in {3, 224, 225}}
OneEach == {c \in CmdMenu : c.dlen \in {0, 16, 20, 48, 224}}
CmdSeqs == {<<>>} \cup {<<c>> : c \in IF Level >= 2 THEN CmdMenu ELSE OneEach \cup {c \in CmdMenu : c.t = 2}}
           \cup (IF Level >= 2 THEN {<<c, d>> : c \in OneEach, d \in {x \in OneEach : x.t \in {5, 11, 14}}} ELSE {<<Cm(2, A, Z, Z, Z, Z, 209), Cm(14, Z, Z, Z, Z, Z, 0)>>})
RootSets == IF Level >= 2 THEN {<<1, 0>>, <<2, 1>>, <<4, 3>>} ELSE {<<1, 0>>, <<4, 3>>}
Isks == IF Level >= 2 THEN {<<FALSE, 0>>, <<TRUE, 0>>, <<TRUE, 4>>} ELSE {<<FALSE, 0>>, <<TRUE, 4>>}
Encs == {<<FALSE, 128, 0>>, <<TRUE, 128, 1>>, <<TRUE, 256, 3>>}
Descs == IF Level >= 2 THEN {[i \in 1..5 |-> 64 + i], [i \in 1..17 |-> 64 + i]} ELSE {[i \in 1..17 |-> 64 + i]}
Inp(cv, rs, ik, en, ds, cs, rk, ikc) ==
  [curve |-> cv, nkeys |-> rs[1], used |-> rs[2], isk |-> ik[1], iskCurve |-> cv, udLen |-> ik[2], udSha |-> "u",
   constraints |-> <<0, 5>>, pckBits |-> en[2], rights |-> en[3], enc |-> en[1], nxp |-> FALSE, flags |-> B, fw |-> A,
   ts |-> <<1, 2, 3, 4>>, desc |-> ds, cmds |-> cs, waive |-> <<>>, rk |-> rk, ik |-> ikc,
   given |-> Requested(en[1], en[2], en[3], ik[1])]
AllFull(n) == [i \in 1..n |-> "full"] \o <<>>
\* value classes of the keys: one key of the set has a short coordinate (the used one / another one; level 2: any position)
OneShort(n, p, c) == [i \in 1..n |-> IF i = p THEN c ELSE "full"] \o <<>>
ShortAt(rs) == IF Level >= 2 THEN 1..rs[1] ELSE {rs[2] + 1, ((rs[2] + 1) % rs[1]) + 1}
KeyVecs(rs) == {AllFull(rs[1])} \cup {OneShort(rs[1], p, c) : p \in ShortAt(rs), c \in ShortClasses}
                \cup (IF Level >= 2 THEN {[i \in 1..rs[1] |-> c] \o <<>> : c \in ShortClasses} ELSE {})
IskKeys == {<<<<FALSE, 0>>, "full">>} \cup {<<<<TRUE, 4>>, c>> : c \in KeyClasses}
LongDesc == [i \in 1..17 |-> 64 + i]
KeyInputs == UNION {{Inp(cv, rs, ik[1], <<TRUE, 256, 3>>, LongDesc, <<Cm(3, A, Z, Z, Z, Z, 0)>>, rk, ik[2])
                     : cv \in {32, 48}, ik \in IskKeys, rk \in KeyVecs(rs)} : rs \in RootSets}
\* supplied next to the request (Sb31Format!Givens): plain containers with every combination of part-common key / access rights /
\* ISK material supplied as well, encrypted containers without ISK with the ISK material supplied
GivenBase == {Inp(cv, <<1, 0>>, ik, en, LongDesc, <<Cm(2, A, Z, Z, Z, Z, 209)>>, AllFull(1), "full")
              : cv \in {32, 48}, ik \in {<<FALSE, 0>>, <<TRUE, 4>>}, en \in {<<FALSE, 128, 0>>, <<TRUE, 256, 3>>}}
GivenInputs == UNION {{[c EXCEPT !.given = g] : g \in Givens(c.enc, c.pckBits, c.rights, c.isk)}
                      : c \in {x \in GivenBase : Level >= 2 \/ ~x.isk \/ (x.curve = 48 /\ ~x.enc)}}
Inputs == {Inp(cv, rs, ik, en, ds, cs, AllFull(rs[1]), "full")
           : cv \in {32, 48}, rs \in RootSets, ik \in Isks, en \in Encs, ds \in Descs, cs \in CmdSeqs}
          \cup KeyInputs \cup GivenInputs

Init == \E c \in Inputs : \E m \in Mistakes \cup {"none"} : RInit(c) /\ evs = <<>> /\ k = 0 /\ mut = m /\ clean = FALSE
\* the file is built (by a worker, not by the single-threaded enumeration of initial states)
Build == /\ k = 0 /\ evs' = Events(inp, mut) /\ clean' = (Events(inp, mut) = Events(inp, "none")) /\ k' = 1
         /\ UNCHANGED <<rvars, mut>>
Ready(name) == st \notin {"Accepted", "Rejected"} /\ k >= 1 /\ k <= Len(evs) /\ evs[k].ev = name
Adv == k' = k + 1 /\ UNCHANGED <<evs, mut, clean>>
DoParseHeader == Ready("ParseHeader") /\ ParseHeader(evs[k]) /\ Adv
DoHeaderFields == Ready("HeaderFields") /\ HeaderFields(evs[k]) /\ Adv
DoLayout == Ready("Layout") /\ Layout(evs[k]) /\ Adv
DoCertHeader == Ready("CertHeader") /\ CertHeader(evs[k]) /\ Adv
DoRootKeyRecord == Ready("RootKeyRecord") /\ RootKeyRecord(evs[k]) /\ Adv
DoIskCert == Ready("IskCert") /\ IskCert(evs[k]) /\ Adv
DoCertBlockEnd == Ready("CertBlockEnd") /\ CertBlockEnd(evs[k]) /\ Adv
DoVerifyBlock0 == Ready("VerifyBlock0") /\ VerifyBlock0(evs[k]) /\ Adv
DoDeriveKdk == Ready("DeriveKdk") /\ DeriveKdk(evs[k]) /\ Adv
DoBlock == Ready("Block") /\ Block(evs[k]) /\ Adv
DoSection == Ready("Section") /\ Section(evs[k]) /\ Adv
DoCmd == Ready("Cmd") /\ Cmd(evs[k]) /\ Adv
DoAccept == Ready("Accept") /\ Accept(evs[k]) /\ Adv
\* a file that is not the clean construction may be given up at any point; a clean one must run to Accepted (else deadlock)
GiveUp == k >= 1 /\ ~clean /\ st \notin {"Accepted", "Rejected"} /\ st' = "Rejected"
          /\ UNCHANGED <<inp, h, ts, b0Len, rkrEnd, certEnd, rootLen, signerLen, covTo, blk, secLen, cur, ncmd, evs, k, mut, clean>>
Done == st \in {"Accepted", "Rejected"} /\ UNCHANGED vars
Next == Build \/ DoParseHeader \/ DoHeaderFields \/ DoLayout \/ DoCertHeader \/ DoRootKeyRecord \/ DoIskCert \/ DoCertBlockEnd \/ DoVerifyBlock0
        \/ DoDeriveKdk \/ DoBlock \/ DoSection \/ DoCmd \/ DoAccept \/ GiveUp \/ Done
\* every mistake of the menu changes something for at least one input (else it would be modelled as a no-op)
Rich == {c \in Inputs : c.enc /\ c.isk /\ c.rights = 3 /\ c.nkeys = 4 /\ Len(c.desc) = 17}
ASSUME \A m \in Mistakes : \E c \in Rich \cup GivenInputs : Events(c, m) # Events(c, "none")
\* the documented construction does not depend on what is supplied but not requested: the events of a container are those of the
\* same request with nothing else supplied
ASSUME \A c \in GivenInputs : Events(c, "none") = Events([c EXCEPT !.given = Requested(c.enc, c.pckBits, c.rights, c.isk)], "none")
\* the mistakes of taking a decision from what is SUPPLIED are effective exactly where something is supplied that is not requested:
\* plain container + part-common key and access rights / + part-common key; no ISK requested + ISK material
ASSUME \A c \in Inputs :
         /\ (Events(c, "encrypts_when_key_material_supplied") # Events(c, "none")) <=> (~c.enc /\ KeyMaterial(c.given))
         /\ (Events(c, "encrypts_when_pck_supplied") # Events(c, "none")) <=> (~c.enc /\ c.given.pck # 0)
         /\ (Events(c, "isk_certificate_when_supplied") # Events(c, "none")) <=> (~c.isk /\ c.given.isk)
\* ... and the case space holds every such combination (non-vacuity of the three lines above)
ASSUME \A cv \in {32, 48}, p \in GivenPcks, r \in GivenRights, i \in BOOLEAN :
         \E c \in GivenInputs : c.curve = cv /\ ~c.enc /\ ~c.isk /\ c.given = [pck |-> p, rights |-> r, isk |-> i]
\* the key-class mistake is effective exactly on root sets of more than one key that hold a key with a short coordinate
ASSUME \A c \in Inputs : (Events(c, "root_key_hash_over_minimal_numbers") # Events(c, "none"))
                           <=> (c.nkeys > 1 /\ \E i \in 1..c.nkeys : c.rk[i] \in ShortClasses)
Spec == Init /\ [][Next]_vars

Sound == st = "Accepted" => clean
Covered == st = "Accepted" => covTo = h.fileLen /\ ncmd = Len(inp.cmds) /\ cur = 16 + secLen /\ k = Len(evs) + 1
Located == st = "Accepted" => /\ h.totalLen = b0Len /\ b0Len = certEnd + signerLen
                              /\ h.fileLen = h.totalLen + h.blockCount * h.blockSize
                              /\ h.certOff = HDR + h.hashLen
                              /\ h.blockCount = (16 + secLen + CHUNK - 1) \div CHUNK
\* the authenticated prefix only grows, and never beyond the file
Monotone == [][covTo' >= covTo]_vars
InFile == st # "Header" => covTo <= h.fileLen
=============================================================================
