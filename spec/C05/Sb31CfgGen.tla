------------------------------ MODULE Sb31CfgGen ------------------------------
(* GEN form of C05 for the CONFIGURATION entry point (SecureBinary31.load_from_config - what `nxpimage sb31 export`    *)
(* uses).  The property speaks of "every SB 3.1 container SPSDK builds": a container described by a configuration      *)
(* dictionary (shape: the YAML template / validation schemas sb3, sb3_test, sb3_commands, cert_block_v21,               *)
(* signature_provider) is built by another code path than one assembled from the classes - keys, numbers, command       *)
(* payloads are READ (hex text, files, number formats) before the same builder runs.  This module enumerates             *)
(* (GEN_MODE = tour) or simulates (GEN_MODE = sim) the abstract cases of that path:                                     *)
(*   case = the dimensions of Sb31Gen (curve, root set, ISK, PCK size, rights, encrypted / plain, NXP flag, commands)   *)
(*          + k    : how the configuration EXPRESSES them (family, form and value class of the part-common key,         *)
(*                   isEncrypted given / omitted, which key names carry the signing keys, certificate block as nested    *)
(*                   configuration / binary, number format, optional header keys given / omitted)                       *)
(*          + cmds : Seq([t, dl, form, sub, opt]) - command kind, data length, the form in which the configuration       *)
(*                   gives the payload (file / comma separated words / one word / one value / legacy `authentication`),  *)
(*                   a second form dimension (authentication key, wrapping key name, counter name), optional keys given  *)
(*          + hist : exports of the one object load_from_config returns.                                               *)
(*          + rk, ik : value class of the root key at every position of the root set and of the image signing key         *)
(*                   (Sb31Format!KeyClasses: leading zero byte in X / Y / both) - on this path the keys are READ from the   *)
(*                   public / private key files the configuration names.                                                  *)
(*          + given : what the configuration SUPPLIES next to what it requests (Sb31Format!Givens), derived from k: a plain     *)
(*                   container (isEncrypted: false) whose configuration names a part-common key (k.pckForm) and / or             *)
(*                   kdkAccessRights (k.rightsGiven) all the same; a certificate block configuration with useIsk: false that       *)
(*                   names the ISK keys, constraint, data and the root private key all the same (k.iskGiven) - the shape of the    *)
(*                   TEMPLATE, which lists every key.                                                                            *)
(* The harness renders each case into a configuration dictionary + files, calls load_from_config, exports; the SAME     *)
(* executor walks the bytes and the SAME R-spec (Sb31Rom, via Sb31RomTrace) decides.  Sizes come from Sb31Format.       *)
EXTENDS Sb31Format, Json, IOUtils
VARIABLES case, stage
Mode == IOEnv.GEN_MODE
Full == atoi(IOEnv.GEN_FULL) = 1
MaxCmds == atoi(IOEnv.GEN_MAXCMDS)

Types == 1..13        \* RESET (14) has no entry in the configuration schema (sch_sb31.yaml): not expressible, class lane only
Fams == {"mcxn947", "lpc55s36"}                         \* wrapping-key id tables 2 and 1
PckForms == {"hex", "hex0x", "txt", "txtnl", "bin"}     \* inline hex text (with / without 0x), text file (with / without newline), binary file
PckVals(bits) == {"rnd", "lead0"} \cup (IF bits = 256 THEN {"half0"} ELSE {})   \* first byte zero; upper half zero
KeyKeys == {"signPrivateKey", "mainRootCertPrivateKeyFile", "signProvider"}
NumFmts == {"int", "hex", "dec", "hex_"}

\* ---- how the configuration expresses things (defaults = the shape of the template)
K0 == [fam |-> "mcxn947", pckForm |-> "txt", pckVal |-> "rnd", encKey |-> "true", sign |-> "signPrivateKey", cb |-> "yaml",
       cbSign |-> "signPrivateKey", cbNew |-> TRUE, rootId |-> TRUE, num |-> "hex",
       descAbsent |-> FALSE, flagsAbsent |-> FALSE, nxpAbsent |-> FALSE, rightsGiven |-> TRUE, iskGiven |-> FALSE]
AllFull(n) == [i \in 1..n |-> "full"] \o <<>>
Case(cv, nk, us, ik, ud, pck, rt, nx, k, cmds, hist) ==
  [curve |-> cv, nkeys |-> nk, used |-> us, isk |-> ik, ud |-> ud, pck |-> pck, rights |-> rt, enc |-> (k.encKey # "false"), nxp |-> nx,
   rk |-> AllFull(nk), ik |-> "full", k |-> k, cmds |-> cmds, hist |-> hist, given |-> Requested(k.encKey # "false", pck, rt, ik)]
Keyed(c, rk, ik) == [c EXCEPT !.rk = rk, !.ik = ik]
E1 == <<"Export">>
E2 == <<"Export", "Export">>
\* dimensions that cannot matter are pinned, so that no case is generated twice
Norm(c) ==
  LET k == c.k
      yamlIsk == c.isk /\ k.cb = "yaml"
      k1 == [k EXCEPT !.cbSign = IF yamlIsk THEN @ ELSE "signPrivateKey", !.cbNew = IF yamlIsk THEN @ ELSE TRUE,
                      !.rootId = IF yamlIsk THEN @ ELSE TRUE,
                      !.pckForm = IF c.enc THEN @ ELSE (IF @ \in {"absent", "hex"} THEN @ ELSE "absent"),
                      !.pckVal = IF c.enc /\ (@ # "half0" \/ c.pck = 256) THEN @ ELSE "rnd",
                      !.nxpAbsent = IF c.nxp THEN FALSE ELSE @,
                      !.rightsGiven = IF c.enc THEN TRUE ELSE @,                       \* what is requested is supplied
                      !.iskGiven = IF c.isk THEN TRUE ELSE (IF k.cb = "yaml" THEN @ ELSE FALSE)]
      pck == IF c.enc \/ k1.pckForm # "absent" THEN c.pck ELSE 128                    \* a plain container that names a key: its size is a dimension
      rt  == IF c.enc \/ k1.rightsGiven THEN c.rights ELSE 0
  IN [c EXCEPT !.k = k1, !.pck = pck, !.rights = rt, !.ud = IF c.isk THEN @ ELSE 0,
               !.ik = IF c.isk THEN @ ELSE "full",
               !.given = [pck |-> IF k1.pckForm = "absent" THEN 0 ELSE pck, rights |-> IF k1.rightsGiven THEN rt ELSE NoRights, isk |-> k1.iskGiven]]

\* ---- commands as the configuration expresses them
CC(t, dl, f, s, o) == [t |-> t, dl |-> dl, form |-> f, sub |-> s, opt |-> o]
Forms(t) == CASE t = 2        -> {"file", "values", "values1", "value"}
              [] t = 5        -> {"values", "values1"}
              [] t = 6        -> {"file", "values", "values1", "value"}
              [] t \in {7, 9} -> {"own", "auth"}                 \* loadCMAC / loadHashLocking, or load + authentication (backward compatible)
              [] t = 10       -> {"omit", "no", "bin", "hex"}    \* plainInput
              [] OTHER        -> {"std"}
Subs(t, f) == CASE t = 2  -> {"omit", "none"}                    \* authentication key omitted / 'none'
                [] t = 10 -> {"NXP_CUST_KEK_INT_SK", "NXP_CUST_KEK_EXT_SK"}
                [] t = 13 -> {"none", "nonsecure", "secure", "radio", "snt", "bootloader"}
                [] OTHER  -> {""}
HasOpt(t) == t \in {1, 2, 7, 8, 9, 11}                          \* memoryId / memoryIdFrom + memoryIdTo are optional keys
Opts(t) == IF HasOpt(t) THEN {TRUE, FALSE} ELSE {TRUE}
FileLens == IF Full THEN {0, 1, 4, 15, 16, 17, 20, 208, 255, 256, 300, 700} ELSE {0, 1, 16, 300}
WordLens == IF Full THEN {4, 8, 12, 16, 20, 256, 300} ELSE {4, 20, 300}
DLens(t, f) == CASE t \notin DataCmds -> {0}
                 [] f = "values"      -> WordLens               \* comma separated 32-bit words
                 [] f = "values1"     -> {4}                    \* one number
                 [] f = "value"       -> {4, 8}                 \* one value, little endian
                 [] OTHER             -> FileLens
MinLen(t, f) == CHOOSE m \in DLens(t, f) : \A x \in DLens(t, f) : m <= x
Shapes(t) == UNION {UNION {{CC(t, dl, f, s, o) : dl \in DLens(t, f), o \in Opts(t)} : s \in Subs(t, f)} : f \in Forms(t)}
SmallShapes(t) == {c \in Shapes(t) : c.dl = MinLen(t, c.form)}
AllShapes == UNION {Shapes(t) : t \in Types}
Std(t) == CHOOSE c \in SmallShapes(t) : c.opt
Ers == CC(1, 0, "std", "", TRUE)
Ldf == CC(2, 300, "file", "omit", TRUE)
Exe == CC(3, 0, "std", "", TRUE)
Three == <<Ers, Ldf, Exe>>

\* ---- two crypto configurations for the tours that are about something else
CfgA(k, cmds, hist) == Norm(Case(32, 1, 0, FALSE, 0, 128, 1, FALSE, [k EXCEPT !.fam = "mcxn947"], cmds, hist))
CfgB(k, cmds, hist) == Norm(Case(48, 4, 2, TRUE, 4, 256, 3, FALSE, [k EXCEPT !.fam = "lpc55s36", !.cbSign = "signProvider", !.cbNew = FALSE], cmds, hist))

\* ---- tour K: the part-common key - size x form x value class x curve x access rights; isEncrypted given / omitted; plain
TourK == {Norm(Case(cv, 2, 1, cv = 48, 0, bits, rt, FALSE,
                    [K0 EXCEPT !.pckForm = f, !.pckVal = v, !.encKey = ek, !.fam = IF cv = 32 THEN "lpc55s36" ELSE "mcxn947"], Three, E1))
          : cv \in {32, 48}, bits \in {128, 256}, f \in PckForms, v \in {"rnd", "lead0", "half0"}, ek \in {"true", "absent"},
            rt \in IF Full THEN 0..3 ELSE {0, 3}}
TourP == {Norm(Case(cv, 1, 0, FALSE, 0, 128, 0, nx, [K0 EXCEPT !.encKey = "false", !.pckForm = f], Three, h))
          : cv \in {32, 48}, nx \in BOOLEAN, f \in {"absent", "hex"}, h \in {E1, E2}}
\* ---- tour P2: what a PLAIN container's configuration supplies all the same - no key / a key of either size x no kdkAccessRights / some x
\*      ISK keys in a certificate block configuration with useIsk: false; exported once / twice
TourP2 == {Norm(Case(cv, 1, 0, FALSE, 0, bits, rt[2], FALSE,
                     [K0 EXCEPT !.encKey = "false", !.pckForm = f, !.rightsGiven = rt[1], !.iskGiven = gi], Three, IF gi THEN E2 ELSE E1))
           : cv \in {32, 48}, f \in {"absent", "hex"}, bits \in {128, 256},
             rt \in {<<FALSE, 0>>} \cup {<<TRUE, r>> : r \in IF Full THEN 0..3 ELSE {0, 3}}, gi \in BOOLEAN}
SupplyLemma == \A cv \in {32, 48}, p \in GivenPcks, r \in {NoRights, 0, 3}, gi \in BOOLEAN :
                 \E c \in TourP2 : c.curve = cv /\ ~c.enc /\ ~c.isk /\ c.given = [pck |-> p, rights |-> r, isk |-> gi]
ASSUME SupplyLemma

\* ---- tour S: who signs - key names in the container configuration x certificate block as nested configuration / binary x
\*      ISK (key names of the nested configuration, new / legacy names, main certificate index given / found from the key) x root sets
RootSets == {<<1, 0>>, <<2, 1>>, <<3, 0>>, <<4, 3>>}
TourS == {Norm(Case(cv, rs[1], rs[2], FALSE, 0, 128, 2, FALSE, [K0 EXCEPT !.sign = sg, !.cb = cb, !.pckForm = "hex", !.iskGiven = gi], Three, E1))
          : cv \in {32, 48}, rs \in RootSets, sg \in KeyKeys, cb \in {"yaml", "bin"}, gi \in BOOLEAN}     \* gi: ISK keys named although useIsk is false
    \cup {Norm(Case(cv, 4, 2, TRUE, ud, 256, 1, FALSE,
                    [K0 EXCEPT !.sign = sg, !.cb = cb, !.cbSign = cs, !.cbNew = nw, !.rootId = ri, !.pckForm = "bin"], Three, E1))
          : cv \in {32, 48}, ud \in IF Full THEN {0, 4, 96} ELSE {0, 96}, sg \in KeyKeys, cb \in {"yaml", "bin"}, cs \in KeyKeys,
            nw \in BOOLEAN, ri \in BOOLEAN}

\* ---- tour R: the value classes of the keys the configuration names - a key of every short class at every position of the root
\*      set (used / not used) and at all positions, x no ISK / ISK of every class x certificate block as nested configuration /
\*      binary x main certificate index given / found from the key (thorough: every vector of classes for sets of up to 3 keys)
OneShort(n, p, c) == [i \in 1..n |-> IF i = p THEN c ELSE "full"] \o <<>>
KeyVecs(n) == {AllFull(n)} \cup {OneShort(n, p, c) : p \in 1..n, c \in ShortClasses} \cup {[i \in 1..n |-> c] \o <<>> : c \in ShortClasses}
              \cup (IF Full /\ n <= 3 THEN {v \o <<>> : v \in [1..n -> KeyClasses]} ELSE {})
IskKeys == {<<FALSE, "full">>} \cup {<<TRUE, c>> : c \in KeyClasses}
TourR == UNION {{Norm(Keyed(Case(cv, rs[1], rs[2], ik[1], 0, 128, 2, FALSE, [K0 EXCEPT !.cb = cb, !.rootId = ri, !.pckForm = "hex"], Three, E1), rk, ik[2]))
                 : cv \in {32, 48}, cb \in {"yaml", "bin"}, ri \in BOOLEAN, ik \in IskKeys, rk \in KeyVecs(rs[1])} : rs \in RootSets}
RkLemma == \A cv \in {32, 48}, c \in ShortClasses, ik \in BOOLEAN, cb \in {"yaml", "bin"} :
              /\ \E x \in TourR : x.curve = cv /\ x.isk = ik /\ x.k.cb = cb /\ x.nkeys > 1 /\ x.rk[x.used + 1] = c
              /\ \E x \in TourR : x.curve = cv /\ x.isk = ik /\ x.k.cb = cb /\ x.nkeys > 1 /\ x.rk[x.used + 1] = "full" /\ \E i \in 1..x.nkeys : x.rk[i] = c
              /\ \E x \in TourR : x.curve = cv /\ x.isk = ik /\ x.k.cb = cb /\ x.nkeys = 1 /\ x.rk[1] = c
              /\ \E x \in TourR : x.curve = cv /\ x.isk /\ x.k.cb = cb /\ x.ik = c /\ x.rk = AllFull(x.nkeys)
              /\ \E x \in TourR : x.curve = cv /\ x.isk /\ x.k.cb = "yaml" /\ ~x.k.rootId /\ x.rk[x.used + 1] = c
ASSUME RkLemma

\* ---- tour C: every command kind in every form the configuration has for it
\*      C1: every shape with the smallest payload x every number format x two configurations
\*      C2: every shape with every payload length of the menu
\*      C3: all 13 kinds in one configuration (the template), every number format
TourC1 == UNION {{CfgA([K0 EXCEPT !.num = n], <<s>>, E1), CfgB([K0 EXCEPT !.num = n], <<s>>, E1)} : s \in UNION {SmallShapes(t) : t \in Types}, n \in NumFmts}
TourC2 == {CfgA([K0 EXCEPT !.pckForm = "hex"], <<Exe, s>>, E1) : s \in AllShapes}
EveryKind == <<Std(1), Std(2), Std(3), Std(4), Std(5), Std(6), Std(7), Std(8), Std(9), Std(10), Std(11), Std(12), Std(13)>>
TourC3 == UNION {{CfgA([K0 EXCEPT !.num = n], EveryKind, h), CfgB([K0 EXCEPT !.num = n], EveryKind, h)} : n \in NumFmts, h \in {E1, E2}}

\* ---- tour H: optional keys of the header given / omitted (description, configuration word, NXP flag)
TourH == UNION {{CfgA([K0 EXCEPT !.descAbsent = d, !.flagsAbsent = f, !.nxpAbsent = x, !.num = "dec"], Three, E2),
                 CfgB([K0 EXCEPT !.descAbsent = d, !.flagsAbsent = f, !.nxpAbsent = x, !.num = "int"], Three, E1)} : d \in BOOLEAN, f \in BOOLEAN, x \in BOOLEAN}
Tour == TourK \cup TourP \cup TourP2 \cup TourS \cup TourR \cup TourC1 \cup TourC2 \cup TourC3 \cup TourH

\* lemmas of the tour (non-vacuity): every key form x size x curve x value class is there encrypted; every command shape is there;
\* every pair of key names (container / nested certificate configuration) is there
KeyLemma == \A cv \in {32, 48}, bits \in {128, 256}, f \in PckForms : \A v \in PckVals(bits) :
              \E c \in TourK : c.enc /\ c.curve = cv /\ c.pck = bits /\ c.k.pckForm = f /\ c.k.pckVal = v
ShapeLemma == \A s \in AllShapes : \E c \in TourC2 : c.cmds[2] = s
FormLemma == \A t \in Types : \A f \in Forms(t) : \A n \in NumFmts : \E c \in TourC1 : c.cmds[1].t = t /\ c.cmds[1].form = f /\ c.k.num = n
SignLemma == \A sg \in KeyKeys, cs \in KeyKeys : \E c \in TourS : c.isk /\ c.k.cb = "yaml" /\ c.k.sign = sg /\ c.k.cbSign = cs
ASSUME KeyLemma /\ ShapeLemma /\ FormLemma /\ SignLemma

\* ---- simulation: every dimension drawn step by step, then a random command list over all shapes
S0 == Case(32, 1, 0, FALSE, 0, 128, 0, FALSE, K0, <<>>, E1)
PickCrypto == /\ stage = "crypto" /\ stage' = "rk"
              /\ \E cv \in {32, 48}, nk \in 1..4, ik \in {<<FALSE, 0>>, <<TRUE, 0>>, <<TRUE, 4>>, <<TRUE, 96>>}, nx \in BOOLEAN, fam \in Fams :
                   \E us \in 0..(nk - 1) :
                     case' = [case EXCEPT !.curve = cv, !.nkeys = nk, !.used = us, !.isk = ik[1], !.ud = ik[2], !.nxp = nx, !.k.fam = fam,
                                          !.rk = AllFull(nk), !.ik = "full"]
\* value classes of the keys (two disjuncts of the next-state relation - the simulator draws a disjunct first: about half of the
\* cases keep full-width keys, the others get any vector of classes)
KeepFull == stage = "rk" /\ stage' = "key" /\ UNCHANGED case
PickKeys == /\ stage = "rk" /\ stage' = "key"
            /\ \E v \in [1..case.nkeys -> KeyClasses] : \E c \in KeyClasses : case' = [case EXCEPT !.rk = v \o <<>>, !.ik = c]
PickKey == /\ stage = "key" /\ stage' = "sign"
           /\ \E bits \in {128, 256}, f \in PckForms \cup {"absent"}, v \in {"rnd", "lead0", "half0"}, ek \in {"true", "absent", "false"}, rt \in 0..3,
                 rg \in BOOLEAN :
                case' = [case EXCEPT !.pck = bits, !.rights = rt, !.enc = (ek # "false"), !.k.pckForm = f, !.k.pckVal = v, !.k.encKey = ek,
                                     !.k.rightsGiven = rg]
PickSign == /\ stage = "sign" /\ stage' = "hdr"
            /\ \E sg \in KeyKeys, cb \in {"yaml", "bin"}, cs \in KeyKeys, nw \in BOOLEAN, ri \in BOOLEAN, gi \in BOOLEAN :
                 case' = [case EXCEPT !.k.sign = sg, !.k.cb = cb, !.k.cbSign = cs, !.k.cbNew = nw, !.k.rootId = ri, !.k.iskGiven = gi]
PickHdr == /\ stage = "hdr" /\ stage' = "cmds"
           /\ \E n \in NumFmts, d \in BOOLEAN, f \in BOOLEAN, x \in BOOLEAN, h \in {E1, E2} :
                case' = [case EXCEPT !.k.num = n, !.k.descAbsent = d, !.k.flagsAbsent = f, !.k.nxpAbsent = x, !.hist = h]
Grow == /\ stage = "cmds" /\ Len(case.cmds) < MaxCmds /\ UNCHANGED stage
        /\ \E s \in AllShapes : case' = [case EXCEPT !.cmds = Append(@, s)]
Usable(c) == c.enc => c.k.pckForm # "absent"
Finish == /\ (stage = "tour" \/ (stage = "cmds" /\ Len(case.cmds) >= 1))
          /\ stage' = "done" /\ UNCHANGED case
          /\ (Usable(Norm(case)) => PrintT(ToJson(Norm(case))))
GInit == IF Mode = "tour" THEN stage = "tour" /\ case \in Tour ELSE stage = "crypto" /\ case = S0
GNext == PickCrypto \/ KeepFull \/ PickKeys \/ PickKey \/ PickSign \/ PickHdr \/ Grow \/ Finish
=============================================================================
