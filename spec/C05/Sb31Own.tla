------------------------------- MODULE Sb31Own -------------------------------
(* C05, OWNERSHIP of the command LIST handed to SecureBinary31Commands.set_commands.  "The decrypted stream parses   *)
(* into exactly the commands supplied": the list is supplied at ONE moment - when the caller makes the call that     *)
(* hands it over.  The caller goes on owning its list object: it appends the next command, clears it, reuses it for   *)
(* the next image, hands the same prepared list to a second container.  What was supplied to a container is the      *)
(* CONTENT of the list when it was handed over, followed by what add_command / insert_command gave that container    *)
(* afterwards; nothing the caller does to its own list later, and nothing another container is given, may show up    *)
(* in a file of this container.  (The command OBJECTS are shared by reference and are not touched here.)            *)
(*                                                                                                                   *)
(* Abstract state: the caller's list (a sequence of command ids), two containers, what each was supplied (cont).     *)
(*  GEN : every history of up to MaxLen calls after the first hand-over that ends in an export is printed (Emit);   *)
(*        every Export record carries `expect` = what this spec says was supplied to that container.  The harness   *)
(*        replays each history on real objects with ONE real Python list, and every export is a trace of            *)
(*        Sb31RomTrace whose inp.cmds is `expect` (concretised) - Python computes no expectation.                   *)
(*  MC  : Holds = "snapshot" (the container keeps the content it was handed): ExportCarriesGiven holds.             *)
(*        Holds = "alias" (the container keeps the caller's list object): TLC must refute it - so the history space *)
(*        provably reaches that class of defect.                                                                    *)
EXTENDS Naturals, Sequences, TLC, Json
CONSTANTS MaxLen,      \* calls per history
          Holds,       \* "snapshot" | "alias"
          EmitOn
VARIABLES lst,         \* the caller's list as the caller's OWN steps make it
          shared,      \* alias semantic: the one list object the caller and every container that was handed it hold
          cont,        \* cont[k]: what container k was supplied so far
          ali,         \* ali[k]: container k was handed the list
          nxt,         \* next fresh command id
          acts
vars == <<lst, shared, cont, ali, nxt, acts>>
Conts == 1..2
Touches == {"append", "insert", "clear", "pop"}
Wheres == {"end", "front"}          \* add_command / insert_command(0, .)

Init == lst = <<1, 2>> /\ shared = <<1, 2>> /\ cont = [k \in Conts |-> <<>>] /\ ali = [k \in Conts |-> FALSE] /\ nxt = 3 /\ acts = <<>>
Room == Len(acts) < MaxLen
Rec(a) == acts' = Append(acts, a)
Ap(kind, s) == CASE kind = "append" -> Append(s, nxt)
                 [] kind = "insert" -> <<nxt>> \o s
                 [] kind = "clear"  -> <<>>
                 [] OTHER           -> IF s = <<>> THEN s ELSE SubSeq(s, 1, Len(s) - 1)
Put(w, s) == IF w = "end" THEN Append(s, nxt) ELSE <<nxt>> \o s
\* ---- I-part: what container k carries into a file
Carried(k) == IF Holds = "alias" /\ ali[k] THEN shared ELSE cont[k]
Emit == EmitOn => PrintT(ToJson([acts |-> acts']))

\* the first call of every history hands the list to container 1 (symmetry)
DoHand(k) == /\ Room /\ (k = 1 \/ ali[1]) /\ cont' = [cont EXCEPT ![k] = lst] /\ ali' = [ali EXCEPT ![k] = TRUE]
             /\ Rec([a |-> "Hand", c |-> k]) /\ UNCHANGED <<lst, shared, nxt>>
DoTouch(t) == /\ Room /\ ali[1] /\ lst' = Ap(t, lst) /\ shared' = Ap(t, shared) /\ nxt' = nxt + 1
              /\ Rec([a |-> "Touch", kind |-> t, id |-> nxt]) /\ UNCHANGED <<cont, ali>>
DoAdd(k, w) == /\ Room /\ ali[1] /\ cont' = [cont EXCEPT ![k] = Put(w, @)]
               /\ shared' = IF ali[k] THEN Put(w, shared) ELSE shared
               /\ nxt' = nxt + 1 /\ Rec([a |-> "Add", c |-> k, where |-> w, id |-> nxt]) /\ UNCHANGED <<lst, ali>>
DoExport(k) == /\ Room /\ ali[1] /\ Rec([a |-> "Export", c |-> k, expect |-> cont[k], carried |-> Carried(k)])
               /\ UNCHANGED <<lst, shared, cont, ali, nxt>> /\ Emit
Hand == \E k \in Conts : DoHand(k)
Touch == \E t \in Touches : DoTouch(t)
Add == \E k \in Conts, w \in Wheres : DoAdd(k, w)
Export == \E k \in Conts : DoExport(k)
Next == Hand \/ Touch \/ Add \/ Export

\* every export of every history carries what was supplied to that container
ExportCarriesGiven == \A i \in 1..Len(acts) : acts[i].a = "Export" => acts[i].carried = acts[i].expect
\* the caller's calls to a container never change the caller's list (declarative restatement of the snapshot)
HandedIsContentThen == \A k \in Conts : ~ali[k] => \A i \in 1..Len(cont[k]) : cont[k][i] >= 3
=============================================================================
