SPECIFICATION Spec
INVARIANT Sound
INVARIANT Covered
INVARIANT Located
INVARIANT InFile
PROPERTY Monotone
CHECK_DEADLOCK TRUE
