CONSTANTS MaxOps = 6
SPECIFICATION Spec
INVARIANT Exact
INVARIANT Shape
PROPERTY PrefixFrozen
CHECK_DEADLOCK FALSE
