------------------------------ MODULE CounterGen ------------------------------
(* GEN form: CounterMC plus a history variable; every behaviour of GEN_DEPTH operations is printed  *)
(* once as JSON (exhaustively, or along -simulate runs) and replayed on a real Counter object.      *)
EXTENDS CounterMC, Json, IOUtils
VARIABLES hist, done
Depth == atoi(IOEnv.GEN_DEPTH)
GInit == Init /\ hist = <<>> /\ done = FALSE
GNext == \/ Len(hist) < Depth /\ Next /\ hist' = Append(hist, act') /\ UNCHANGED done
         \/ Len(hist) = Depth /\ ~done /\ done' = TRUE /\ PrintT(ToJson(hist)) /\ UNCHANGED <<vars, hist>>
=============================================================================
