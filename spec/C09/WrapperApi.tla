----------------------------- MODULE WrapperApi -----------------------------
(* GEN form of the wrapper part of C09: the abstract case space of the module-level functions of    *)
(* spsdk.crypto.* (and the two SPSDK-specific derivations).  A case fixes everything the outcome    *)
(* CLASS depends on - key size, message-length class, for every optional parameter whether it is    *)
(* given or left to its default, independently on the encrypting and on the decrypting side, tag    *)
(* and nonce lengths, malformed lengths the docstrings promise to refuse, forgeries - and nothing   *)
(* else; the bytes are chosen by the harness (seeded), the verdict is ApiTrace's.  One initial      *)
(* state per case; each is printed as JSON.                                                         *)
(*   ive / ivd : IV on the encrypt / decrypt side: default | given | short (8) | long (17) | same | other *)
(*   dv        : decrypt-side variant of an authenticated mode: same | tagdefault | tagother | aadother *)
(*               | aaddrop | flipct | fliptag | truncated                                          *)
EXTENDS Naturals, Sequences, TLC, Json
CONSTANTS Deep                      \* FALSE: menus of the quick tier, TRUE: thorough tier
VARIABLES fam, p
vars == <<fam, p>>
AesKeys  == {16, 24, 32}
MsgLens  == IF Deep THEN {0, 1, 15, 16, 17, 31, 32, 33, 47, 48, 49, 64, 80} ELSE {0, 1, 15, 16, 17, 31, 32, 33, 48}
CcmMsg   == IF Deep THEN {0, 1, 15, 16, 17, 33} ELSE {0, 1, 17}
CcmNonce == IF Deep THEN 7..13 ELSE {7, 12, 13}
CcmAad   == IF Deep THEN {"default", "empty", "a1", "a14", "a20", "a40"} ELSE {"default", "a14", "a20"}
CcmTagE  == IF Deep THEN {0, 4, 6, 8, 10, 12, 14, 16} ELSE {0, 4, 8, 16}               \* 0 = left to the default (16)
CcmDv    == IF Deep THEN {"same", "tagdefault", "tagother", "aadother", "aaddrop", "flipct", "fliptag", "truncated"}
                    ELSE {"same", "tagdefault", "aadother", "flipct", "fliptag"}
HashAlgSel == {"default", "sha1", "sha256", "sha384", "sha512", "md5", "sm3", "none"}
Chunkings == {<<[t |-> "b", n |-> 0]>>, <<[t |-> "b", n |-> 1]>>, <<[t |-> "b", n |-> 55]>>, <<[t |-> "b", n |-> 56]>>, <<[t |-> "b", n |-> 64]>>,
              <<[t |-> "b", n |-> 3], [t |-> "b", n |-> 61], [t |-> "b", n |-> 100]>>,
              <<[t |-> "b", n |-> 0], [t |-> "b", n |-> 10], [t |-> "b", n |-> 0]>>,
              <<[t |-> "i", n |-> 1]>>, <<[t |-> "i", n |-> 4], [t |-> "b", n |-> 7]>>, <<[t |-> "b", n |-> 5], [t |-> "i", n |-> 32], [t |-> "i", n |-> 3]>>}
Init ==
  \/ fam = "ecb"  /\ p \in [kl : AesKeys, ml : {0, 16, 32, 48, 1, 17}]
  \/ fam = "cbc"  /\ p \in [alg : {"aes"}, kl : AesKeys \cup {15, 33}, ml : MsgLens,
                            ive : {"default", "given", "short", "long"}, ivd : {"default", "same", "other", "short"}]
  \/ fam = "cbc"  /\ p \in [alg : {"sm4"}, kl : {16, 32}, ml : MsgLens,
                            ive : {"default", "given", "short", "long"}, ivd : {"default", "same", "other", "short"}]
  \/ fam = "ctr"  /\ p \in [kl : AesKeys, ml : MsgLens, nonce : {"random", "carry32", "carry64", "ones"}]
  \/ fam = "xts"  /\ p \in [kl : {32, 64}, ml : (MsgLens \ {1}) \cup {47, 64}]
  \/ fam = "ccm"  /\ p \in [kl : AesKeys, ml : CcmMsg, nl : CcmNonce, aad : CcmAad, tag : CcmTagE, dv : CcmDv]
  \/ fam = "kw"   /\ p \in [kl : AesKeys, ml : {16, 24, 32, 40, 64, 8, 20}, dv : {"same", "flip", "truncated"}]
  \/ fam = "hash" /\ p \in [alg : HashAlgSel, chunks : Chunkings]
  \/ fam = "hmac" /\ p \in [alg : HashAlgSel, kl : {0, 1, 20, 64, 65, 128, 129, 200}, ml : {0, 1, 64, 150}]
  \/ fam = "cmac" /\ p \in [kl : AesKeys, ml : MsgLens]
  \/ fam = "hkdf" /\ p \in [sl : {0, 16, 32, 64, 65, 100}, il : {1, 16, 32, 64}, fl : {0, 10, 80}, L : {1, 16, 31, 32, 33, 64, 100} \cup (IF Deep THEN {255, 1000} ELSE {})]
  \/ fam = "ks"   /\ p \in [which : {"hmac", "enc_image", "sb_kek"}, kl : {32, 0, 16, 31, 33}, il : {16}]
  \/ fam = "ks"   /\ p \in [which : {"otfad"}, kl : {32, 31}, il : {16, 0, 15, 17}]
  \/ fam = "sb31" /\ p \in [api : {"kdk", "blk", "class"}, bits : {128, 256, 192, 0}, rights : 0..4, kl : {16, 32},
                            const : {"zero", "one", "byte", "word", "max32", "over32", "max96"}]
Next == UNCHANGED vars
\* every optional parameter is exercised given and defaulted, independently on both sides (checked over the generated space by the harness as well)
Emit == PrintT(ToJson([fam |-> fam, p |-> p]))
=============================================================================
