-------------------------------- MODULE Crc --------------------------------
(* C09 R-spec, part 2: the three named CRCs, defined bit-serially (a W-bit shift register, one      *)
(* message bit per step) from their parameters in the Rocksoft model as published in the CRC        *)
(* catalogue (reveng): CRC-32/ISO-HDLC, CRC-32/MPEG-2, CRC-16/XMODEM.  Nothing of                    *)
(* spsdk/crypto/crc.py (its table for crcmod uses another convention for the initial value) is      *)
(* used here; the catalogue's check values for "123456789" are proved as lemmas by TLC (CrcMC).     *)
(* Registers and words are bit strings, most significant bit first; 32-bit words are written as two *)
(* 16-bit halves because TLC integers are 32-bit signed.                                            *)
EXTENDS Naturals, Sequences
SqB(f)          == f \o <<>>                                            \* forces TLC to evaluate a function into a tuple
Bits(n, v)     == SqB([i \in 1..n |-> (v \div (2 ^ (n - i))) % 2])         \* v < 2^16 in all uses
Word(hi, lo)   == Bits(16, hi) \o Bits(16, lo)
XorBits(a, b)  == SqB([i \in 1..Len(a) |-> (a[i] + b[i]) % 2])
RevBits(s)     == SqB([i \in 1..Len(s) |-> s[Len(s) + 1 - i]])
ByteOf(s, k)   == LET V[i \in 0..8] == IF i = 0 THEN 0 ELSE 2 * V[i - 1] + s[8 * (k - 1) + i] IN V[8]   \* k-th byte of a bit string
BytesOf(s)     == SqB([k \in 1..(Len(s) \div 8) |-> ByteOf(s, k)])
CrcAlgs        == {"crc32", "crc32-mpeg", "crc16-xmodem"}
CrcParams(alg) ==
  CASE alg = "crc32"        -> [w |-> 32, poly |-> Word(1217, 7607), init |-> Word(65535, 65535), refin |-> TRUE,  refout |-> TRUE,  xorout |-> Word(65535, 65535)]
    [] alg = "crc32-mpeg"   -> [w |-> 32, poly |-> Word(1217, 7607), init |-> Word(65535, 65535), refin |-> FALSE, refout |-> FALSE, xorout |-> Word(0, 0)]
    [] alg = "crc16-xmodem" -> [w |-> 16, poly |-> Bits(16, 4129),   init |-> Bits(16, 0),        refin |-> FALSE, refout |-> FALSE, xorout |-> Bits(16, 0)]
\* one step of the register: shift left, the bit falling out is compared with the message bit
Step(P, reg, b) == LET sh == Tail(reg) \o <<0>> IN IF reg[1] # b THEN XorBits(sh, P.poly) ELSE sh
\* the 8 bits of a byte in the order they enter the register (reflected input: least significant bit first)
BitOf(P, byte, k) == IF P.refin THEN (byte \div (2 ^ (k - 1))) % 2 ELSE (byte \div (2 ^ (8 - k))) % 2
\* (TLC evaluates operator arguments lazily: without forcing the previous register first, the evaluation of a long message
\*  nests 8 levels per byte and overflows the Java stack; Len(reg) = P.w is always true and only forces the evaluation)
ByteStep(P, reg, byte) == LET S[k \in 0..8] == IF k = 0 THEN reg ELSE Step(P, S[k - 1], BitOf(P, byte, k)) IN IF Len(reg) = P.w THEN S[8] ELSE <<>>
CrcReg(P, msg) == LET R[j \in 0..Len(msg)] == IF j = 0 THEN P.init ELSE ByteStep(P, R[j - 1], msg[j]) IN R[Len(msg)]
CrcBits(alg, msg) == LET P == CrcParams(alg)
                         r == CrcReg(P, msg)
                     IN XorBits(IF P.refout THEN RevBits(r) ELSE r, P.xorout)
Crc(alg, msg) == BytesOf(CrcBits(alg, msg))                     \* the CRC value, big-endian, W/8 bytes
CrcWidthBytes(alg) == CrcParams(alg).w \div 8
=============================================================================
