----------------------------- MODULE CounterTrace -----------------------------
(* TV form of Counter: a trace is what a real spsdk.crypto.symmetric.Counter object did along a      *)
(* history.  Every event names the operation with all its arguments and carries `out`, the result   *)
(* of reading `.value` right after it ([k: "ret", v: the 16 bytes] or [k: "exc" | "err", ...]).       *)
(* Each step must be the spec action with those arguments and the value read must be the spec's      *)
(* Value in the successor state - recomputed here, limb by limb, nothing is taken from the log.      *)
EXTENDS Counter, TLC, Json, IOUtils
Traces == ndJsonDeserialize(IOEnv.TRACE_FILE)
VARIABLES tid, l
T == Traces[tid].ev
E == T[l]
Is(o) == l <= Len(T) /\ E.op = o
Adv == l' = l + 1 /\ UNCHANGED tid
IsWord(w) == Len(w) = 2 /\ w[1] \in 0..65535 /\ w[2] \in 0..65535
Seen(v) == E.out.k = "ret" /\ E.out.v = v
TInit == tid \in 1..Len(Traces) /\ l = 1 /\ CInit /\ TLCSet(tid, 1)
\* an omitted byte order means little-endian, an omitted ctr_value means zero, increment() means one block
TNew  == Is("new") /\ IsWord(E.cv) /\ New(E.nonce, E.cvg, E.cv, IF E.beg THEN E.be ELSE FALSE) /\ Seen(Value') /\ Adv
TInc  == Is("inc") /\ IsWord(E.k) /\ Inc(E.kg, E.k) /\ Seen(Value') /\ Adv
TRead == Is("read") /\ Read /\ Seen(Value') /\ Adv
TNext == TNew \/ TInc \/ TRead
Constr == IF TLCGet(tid) < l THEN TLCSet(tid, l) ELSE TRUE
Post == \A i \in 1..Len(Traces) :
          \/ TLCGet(i) - 1 = Len(Traces[i].ev)
          \/ PrintT(<<"REJ", Traces[i].id, TLCGet(i) - 1, Len(Traces[i].ev),
                      Traces[i].ev[IF TLCGet(i) <= Len(Traces[i].ev) THEN TLCGet(i) ELSE Len(Traces[i].ev)].op>>)
=============================================================================
