------------------------------- MODULE Bytes -------------------------------
(* Byte strings as Seq(0..255) and the few arithmetic helpers the mode definitions need.          *)
(* TLC integers are 32-bit: numbers that may exceed 2^31 never appear as integers, only as byte    *)
(* strings or 16-bit limbs.                                                                        *)
EXTENDS Naturals, Sequences, Bitwise
\* TLC keeps [i \in 1..n |-> e] as an unevaluated function; chains of them nest without bound (stack overflow when
\* they are finally compared).  Concatenation with the empty sequence turns the function into an evaluated tuple.
Sq(f)         == f \o <<>>
Zeros(n)      == Sq([i \in 1..n |-> 0])
Rep(b, n)     == Sq([i \in 1..n |-> b])
IsBytes(s)    == \A i \in 1..Len(s) : s[i] \in 0..255
XorB(a, b)    == Sq([i \in 1..Len(a) |-> a[i] ^^ b[i]])              \* operands of equal length
Take(s, n)    == SubSeq(s, 1, n)
Drop(s, n)    == SubSeq(s, n + 1, Len(s))
CeilDiv(a, b) == (a + b - 1) \div b
AlignUp(n, a) == CeilDiv(n, a) * a
Pad0(m, a)    == m \o Zeros(AlignUp(Len(m), a) - Len(m))           \* zero padding up to a multiple of a
NB(m)         == Len(m) \div 16                                     \* number of complete 16-byte blocks
Blk(m, i)     == SubSeq(m, 16 * (i - 1) + 1, 16 * i)                \* i-th complete block, i >= 1
\* big-/little-endian encoding of a small natural (v < 2^31) on n bytes
BE(n, v)      == Sq([i \in 1..n |-> IF n - i >= 4 THEN 0 ELSE (v \div (256 ^ (n - i))) % 256])
LE(n, v)      == Sq([i \in 1..n |-> IF i - 1 >= 4 THEN 0 ELSE (v \div (256 ^ (i - 1))) % 256])
\* b + 1 on a big-endian byte string, modulo 256^Len(b)
IncBE(b)      == LET n == Len(b)
                     C[i \in 1..(n + 1)] == IF i = n + 1 THEN 1 ELSE (b[i] + C[i + 1]) \div 256
                 IN Sq([i \in 1..n |-> (b[i] + C[i + 1]) % 256])
\* multiplication by x in GF(2^128), polynomial x^128 + x^7 + x^2 + x + 1
\*   DblBE: the string is the number big-endian (CMAC, SP 800-38B);  DblLE: little-endian (XTS, IEEE 1619)
DblBE(b)      == LET n == Len(b)
                     s == Sq([i \in 1..n |-> ((2 * b[i]) % 256) + (IF i < n THEN b[i + 1] \div 128 ELSE 0)])
                 IN IF b[1] >= 128 THEN Sq([s EXCEPT ![n] = s[n] ^^ 135]) ELSE s
DblLE(b)      == LET n == Len(b)
                     s == Sq([i \in 1..n |-> ((2 * b[i]) % 256) + (IF i > 1 THEN b[i - 1] \div 128 ELSE 0)])
                 IN IF b[n] >= 128 THEN Sq([s EXCEPT ![1] = s[1] ^^ 135]) ELSE s
\* concatenation of a sequence of byte strings
RECURSIVE Flat(_)
Flat(ss)      == IF ss = <<>> THEN <<>> ELSE Head(ss) \o Flat(Tail(ss))
AllZero(s)    == \A i \in 1..Len(s) : s[i] = 0
=============================================================================
