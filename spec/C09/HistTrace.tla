------------------------------ MODULE HistTrace ------------------------------
(* TV form of CallHist.  One trace = one history of calls executed on the real code by ONE process, *)
(* in the order TLC generated it; one event per call:                                                *)
(*   c     the abstract call of CallHist (function, variant, lengths, slots, object, dom)            *)
(*   fam / alg / op / fn / a / out / tab / ref   as in ApiTrace (the arguments the call was given,   *)
(*         what happened, the primitive evaluations of the trusted base for THIS call)               *)
(* and the trace carries mat, the slot material (mat.k / mat.i / mat.d : two byte strings each).     *)
(* Every result is decided against the term of that call alone (Expect of ApiTrace: the same         *)
(* definitions over CipherModes / Crc that decide the single-call lane); the state of the spec holds *)
(* only what the reference model says a caller's OBJECTS hold: the bytes fed to each Hash object and *)
(* the key-derivation key of each KeyDerivator - both computed here, never taken from the log.       *)
(* Nothing else is carried from one event to the next: a real result that depends on an earlier call *)
(* (accepted or refused, same or different key / IV / data) cannot conform.                          *)
EXTENDS ApiTrace
PureFams == {"ecb", "cbc", "ctr", "xts", "ccm", "kw", "hash", "hmac", "cmac", "hkdf", "ks", "sb31", "crc"}
HObj0 == [live |-> FALSE, fin |-> FALSE, alg |-> "", data |-> <<>>]
KObj0 == [live |-> FALSE, kdk |-> <<>>, bits |-> 0, rights |-> 0]
HSt0  == [h |-> [o \in 1..2 |-> HObj0], k |-> [o \in 1..2 |-> KObj0]]
CaseOf(ev) == [fam |-> ev.fam, p |-> [alg |-> ev.alg]]
Usable(H) == H.live /\ ~H.fin
RightsOf(x) == CASE x = "r0" -> 0 [] x = "r1" -> 1 [] x = "r2" -> 2 [] x = "r3" -> 3 [] x = "r4" -> 4 [] OTHER -> 9

\* ------------------------------------------------------------------ expectation of one call: its own term (+ the object it is made on)
XHobj(os, ev) ==
    LET H == os.h[ev.c.o] IN
    CASE ev.fn = "Hash" -> IF EffAlg(ev.a) \notin HashAlgs THEN ErrX ELSE ValX(<<>>)
      [] ev.fn = "Hash.update" -> IF Usable(H) THEN ValX(<<>>) ELSE AnyX
      [] ev.fn = "Hash.update_int" -> IF Usable(H) /\ Len(ev.a.d) > 0 /\ ev.a.d[1] # 0 THEN ValX(<<>>) ELSE AnyX
      [] ev.fn = "Hash.finalize" -> IF Usable(H) THEN ValX(LookH(ev.tab, HashLen(H.alg), H.data)) ELSE AnyX
XKobj(os, ev) ==
    IF ev.fn = "KeyDerivator" THEN XSb31(ev)
    ELSE IF os.k[ev.c.o].live THEN XSb31(ev) ELSE AnyX
ExpectH(os, ev) == IF ev.fam \in PureFams THEN Expect(CaseOf(ev), ev) ELSE IF ev.fam = "hobj" THEN XHobj(os, ev) ELSE XKobj(os, ev)
\* the objects after a call that conformed
NextH(os, ev) ==
    LET X == ExpectH(os, ev)
        o == ev.c.o
    IN CASE ev.fn = "Hash" /\ X.k = "val" -> [os EXCEPT !.h[o] = [live |-> TRUE, fin |-> FALSE, alg |-> EffAlg(ev.a), data |-> <<>>]]
         [] ev.fn \in {"Hash.update", "Hash.update_int"} /\ X.k = "val" -> [os EXCEPT !.h[o].data = @ \o ev.a.d]
         [] ev.fn = "Hash.finalize" /\ X.k = "val" -> [os EXCEPT !.h[o].fin = TRUE]
         [] ev.fn = "KeyDerivator" /\ X.k = "val" -> [os EXCEPT !.k[o] = [live |-> TRUE, kdk |-> X.v, bits |-> ev.a.bits, rights |-> ev.a.rights]]
         [] ev.fn = "KeyDerivator" /\ X.k = "any" -> [os EXCEPT !.k[o] = KObj0]
         [] OTHER -> os

\* ------------------------------------------------------------------ the concrete call is the instance of the abstract call over the slot material
RawData == {"aes_ecb_encrypt", "aes_ecb_decrypt", "aes_cbc_encrypt", "aes_cbc_decrypt", "sm4_cbc_encrypt", "sm4_cbc_decrypt", "aes_ctr_encrypt", "aes_ctr_decrypt",
            "aes_xts_encrypt", "aes_xts_decrypt", "aes_ccm_encrypt", "aes_key_wrap", "cmac", "cmac_validate", "hmac", "hmac_validate", "Crc.calculate", "Crc.verify", "Hash.update"}
Keyed   == {"ecb", "cbc", "ctr", "xts", "ccm", "kw", "cmac", "hmac", "ks"}
Const12(mat, c) == Take(mat.d[c.ds], c.ml) \o Zeros(12 - c.ml)
ConcreteH(mat, os, ev) ==
    LET c == ev.c
        a == ev.a
        K == Take(mat.k[c.ks], c.kl)
        D == Take(mat.d[c.ds], c.ml)
        I(n) == Take(mat.i[c.is], n)
    IN /\ (ev.fam \in Keyed => a.key = K)
       /\ (ev.fn \in RawData \/ (ev.fn = "aes_key_unwrap" /\ c.x = "raw") => a.d = D)
       /\ (ev.fam = "cbc" => CASE c.x = "iv" -> a.ivg /\ a.iv = I(16) [] c.x = "noiv" -> ~a.ivg [] c.x = "ivshort" -> a.ivg /\ a.iv = I(8))
       /\ (ev.fam = "ctr" => a.nonce = I(IF c.x = "nshort" THEN 8 ELSE 16))
       /\ (ev.fam = "xts" => a.tweak = I(16))
       /\ (ev.fam = "ccm" => /\ a.nonce = I(IF c.x = "n6" THEN 6 ELSE 12) /\ a.tlg = (c.n # 0) /\ (a.tlg => a.tl = c.n)
                             /\ (a.aadg /\ a.aad # <<>> => a.aad = SubSeq(mat.i[c.is], 21, 40)))
       /\ (ev.fam = "hash" => a.chunks = <<[t |-> "b", v |-> D]>> /\ a.algg = (c.x # "default") /\ (a.algg => a.alg = c.x))
       /\ (ev.fam = "hkdf" => a.salt = K /\ a.ikm = D /\ a.L = c.n /\ a.info = (IF c.x = "info" THEN I(10) ELSE <<>>))
       /\ (ev.fam = "ks" /\ a.which = "otfad" => a.inp = D)
       /\ (ev.fam = "sb31" \/ ev.fn = "KeyDerivator" => a.key = K /\ a.const = Const12(mat, c) /\ a.bits = c.n /\ a.rights = RightsOf(c.x))
       /\ (ev.fn = "KeyDerivator.get_block_key" => LET O == os.k[c.o] IN a.const = Const12(mat, c) /\ (O.live => a.key = O.kdk /\ a.bits = O.bits /\ a.rights = O.rights))
       /\ (ev.fn = "Hash" => a.algg = (c.x # "default") /\ (a.algg => a.alg = c.x))
       /\ (ev.fn = "Hash.update_int" => Len(a.d) = c.ml /\ Drop(a.d, 1) = SubSeq(mat.d[c.ds], 2, c.ml))

\* ------------------------------------------------------------------ the verdict on one event
JudgeH(mat, os, ev) ==
    LET X == ExpectH(os, ev) IN
    IF ~ConcreteH(mat, os, ev) THEN "concretise"                                           \* harness error
    ELSE IF ev.c.dom # (X.k # "any") THEN "concretise"                                      \* the generator's domain flag and the R-spec's domain differ (harness error)
    ELSE IF X.k \in {"val", "reject"} /\ ev.ref # X.r THEN "oracle"                         \* reference implementation and spec disagree (harness error)
    ELSE IF X.k = "any" THEN "ok"
    ELSE IF X.k = "err" THEN (IF ev.out.k = "err" THEN "ok" ELSE "class")
    ELSE IF X.k = "reject" THEN (IF ev.out.k \in {"err", "exc"} THEN "ok" ELSE "class")
    ELSE IF ev.out.k # "ret" THEN "class"
    ELSE IF Len(ev.out.v) # Len(X.v) THEN "length"
    ELSE IF ev.out.v # X.v THEN "value"
    ELSE "ok"

HTR == Traces[tid]
HInit == tid \in 1..Len(Traces) /\ l = 1 /\ st = HSt0 /\ TLCSet(tid, 1)
HStep == /\ l <= Len(HTR.ev)
         /\ JudgeH(HTR.mat, st, HTR.ev[l]) = "ok"
         /\ st' = NextH(st, HTR.ev[l])
         /\ l' = l + 1 /\ UNCHANGED tid
HNext == HStep
HStAt(tr, j) == LET S[i \in 0..j] == IF i = 0 THEN HSt0 ELSE NextH(S[i - 1], tr.ev[i]) IN S[j]
HPost == \A i \in 1..Len(Traces) :
          LET tr == Traces[i]
              m  == TLCGet(i) - 1                         \* events matched
          IN \/ m = Len(tr.ev)
             \/ LET ev == tr.ev[m + 1]
                    s  == HStAt(tr, m)
                IN PrintT(<<"REJ", tr.id, m, Len(tr.ev), ev.fn, JudgeH(tr.mat, s, ev), ExpectH(s, ev).k, ev.out.k>>)
=============================================================================
