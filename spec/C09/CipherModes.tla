---------------------------- MODULE CipherModes ----------------------------
(* C09 R-spec, part 1: the modes of operation, MACs and KDFs as DEFINITIONS over one block          *)
(* primitive and one hash primitive.                                                               *)
(*   F(_)  one-block encryption under the key of the case      (AES / SM4: 16-byte blocks)          *)
(*   G(_)  its inverse (one-block decryption)                                                       *)
(*   H(_)  the hash function of the case                                                            *)
(* The primitives are operator parameters: the model-checking form binds them to a toy permutation  *)
(* and a toy hash and proves the inversion / refusal lemmas, the trace form binds them to the table *)
(* of primitive evaluations the trusted base (cryptography AES-ECB single block, pure-Python SM4,   *)
(* hashlib) produced for the case - so that TLC itself computes the expected bytes of every call.  *)
(* Sources: SP 800-38A (ECB, CBC, CTR), IEEE 1619 / SP 800-38E (XTS incl. ciphertext stealing),      *)
(* SP 800-38C / RFC 3610 (CCM), RFC 3394 (key wrap), SP 800-38B / RFC 4493 (CMAC), RFC 2104 (HMAC),  *)
(* RFC 5869 (HKDF).                                                                                *)
EXTENDS Bytes

\* ------------------------------------------------------------------ ECB (whole blocks only)
EcbMap(P(_), m) == LET n == NB(m)
                       A[i \in 0..n] == IF i = 0 THEN <<>> ELSE A[i - 1] \o P(Blk(m, i))
                   IN A[n]
EcbEnc(F(_), m) == EcbMap(F, m)
EcbDec(G(_), c) == EcbMap(G, c)

\* ------------------------------------------------------------------ CBC (whole blocks only; the wrappers pad with zeros first)
CbcEnc(F(_), iv, m) == LET n == NB(m)
                           R[i \in 0..n] == IF i = 0 THEN [c |-> iv, acc |-> <<>>]
                                            ELSE LET p == R[i - 1]
                                                     c == F(XorB(Blk(m, i), p.c))
                                                 IN [c |-> c, acc |-> p.acc \o c]
                       IN R[n].acc
CbcDec(G(_), iv, c) == LET n == NB(c)
                           A[i \in 0..n] == IF i = 0 THEN <<>>
                                            ELSE A[i - 1] \o XorB(G(Blk(c, i)), IF i = 1 THEN iv ELSE Blk(c, i - 1))
                       IN A[n]

\* ------------------------------------------------------------------ CTR, the whole 16-byte block is a big-endian counter (mod 2^128)
CtrStream(F(_), ctr0, nblk) == LET R[i \in 0..nblk] == IF i = 0 THEN [cb |-> ctr0, acc |-> <<>>]
                                                      ELSE LET p == R[i - 1] IN [cb |-> IncBE(p.cb), acc |-> p.acc \o F(p.cb)]
                               IN R[nblk].acc
Ctr(F(_), ctr0, m) == XorB(m, Take(CtrStream(F, ctr0, CeilDiv(Len(m), 16)), Len(m)))     \* its own inverse

\* ------------------------------------------------------------------ XTS (one data unit, Len(m) >= 16, ciphertext stealing for a ragged tail)
\*   F1/G1: block cipher under the first half of the key, F2: under the second half (tweak encryption)
XtsTweak(F2(_), tweak, j) == LET T[i \in 0..j] == IF i = 0 THEN F2(tweak) ELSE DblLE(T[i - 1]) IN T[j]     \* tweak of block j (0-based)
XtsBlk(P(_), t, b) == XorB(P(XorB(b, t)), t)
XtsWhole(P(_), F2(_), tweak, m, n) ==      \* the first n complete blocks, each under its own tweak
    LET R[i \in 0..n] == IF i = 0 THEN [t |-> F2(tweak), acc |-> <<>>]
                         ELSE LET p == R[i - 1] IN [t |-> DblLE(p.t), acc |-> p.acc \o XtsBlk(P, p.t, Blk(m, i))]
    IN R[n]
XtsEnc(F1(_), F2(_), tweak, m) ==
    LET n == NB(m)
        r == Len(m) % 16
    IN IF r = 0 THEN XtsWhole(F1, F2, tweak, m, n).acc
       ELSE LET W    == XtsWhole(F1, F2, tweak, m, n - 1)              \* blocks 1..n-1 as usual, W.t = tweak of block n
                cc   == XtsBlk(F1, W.t, Blk(m, n))
                tail == Drop(m, 16 * n)
                last == XtsBlk(F1, DblLE(W.t), tail \o Drop(cc, r))
            IN W.acc \o last \o Take(cc, r)
XtsDec(G1(_), F2(_), tweak, c) ==
    LET n == NB(c)
        r == Len(c) % 16
    IN IF r = 0 THEN XtsWhole(G1, F2, tweak, c, n).acc
       ELSE LET W    == XtsWhole(G1, F2, tweak, c, n - 1)
                pp   == XtsBlk(G1, DblLE(W.t), Blk(c, n))              \* the last complete block was made under the LATER tweak
                tail == Drop(c, 16 * n)
                prev == XtsBlk(G1, W.t, tail \o Drop(pp, r))
            IN W.acc \o prev \o Take(pp, r)

\* ------------------------------------------------------------------ CCM (nonce 7..13 bytes, tag 4,6,..,16 bytes, Len(aad) < 2^31)
CcmL(nonce) == 15 - Len(nonce)
CcmB0(nonce, mlen, alen, tl) == <<(IF alen > 0 THEN 64 ELSE 0) + 8 * ((tl - 2) \div 2) + (CcmL(nonce) - 1)>> \o nonce \o BE(CcmL(nonce), mlen)
CcmA(nonce, i) == <<CcmL(nonce) - 1>> \o nonce \o BE(CcmL(nonce), i)
CcmAadLen(n) == IF n < 65280 THEN BE(2, n) ELSE <<255, 254>> \o BE(4, n)           \* SP 800-38C A.2.2
CcmMacInput(nonce, m, aad, tl) == CcmB0(nonce, Len(m), Len(aad), tl)
                                  \o (IF Len(aad) > 0 THEN Pad0(CcmAadLen(Len(aad)) \o aad, 16) ELSE <<>>)
                                  \o Pad0(m, 16)
CbcMac(F(_), x) == LET n == NB(x)
                       X[i \in 0..n] == IF i = 0 THEN Zeros(16) ELSE F(XorB(X[i - 1], Blk(x, i)))
                   IN X[n]
CcmStream(F(_), nonce, nblk) == LET A[i \in 0..nblk] == IF i = 0 THEN <<>> ELSE A[i - 1] \o F(CcmA(nonce, i)) IN A[nblk]
CcmCrypt(F(_), nonce, x) == XorB(x, Take(CcmStream(F, nonce, CeilDiv(Len(x), 16)), Len(x)))
CcmTag(F(_), nonce, m, aad, tl) == Take(XorB(CbcMac(F, CcmMacInput(nonce, m, aad, tl)), F(CcmA(nonce, 0))), tl)
CcmEnc(F(_), nonce, m, aad, tl) == CcmCrypt(F, nonce, m) \o CcmTag(F, nonce, m, aad, tl)
CcmDec(F(_), nonce, c, aad, tl) ==              \* [ok, m]: ok = FALSE is the FAIL result of SP 800-38C 6.2
    IF Len(c) < tl THEN [ok |-> FALSE, m |-> <<>>]
    ELSE LET m == CcmCrypt(F, nonce, Take(c, Len(c) - tl))
         IN [ok |-> Drop(c, Len(c) - tl) = CcmTag(F, nonce, m, aad, tl), m |-> m]

\* ------------------------------------------------------------------ RFC 3394 key wrap with the default initial value A6A6A6A6A6A6A6A6
KwIv == Rep(166, 8)
Semi(p, i) == SubSeq(p, 8 * (i - 1) + 1, 8 * i)
KwT(t) == BE(8, t)
Wrap(F(_), p) ==                                  \* Len(p) = 8n, n >= 2
    LET n == Len(p) \div 8
        S[s \in 0..(6 * n)] ==                    \* state after s steps: step s works on register i = ((s-1) % n) + 1 with t = s
            IF s = 0 THEN [a |-> KwIv, r |-> [i \in 1..n |-> Semi(p, i)]]
            ELSE LET q == S[s - 1]
                     i == ((s - 1) % n) + 1
                     b == F(q.a \o q.r[i])
                 IN [a |-> XorB(Take(b, 8), KwT(s)), r |-> [q.r EXCEPT ![i] = Drop(b, 8)]]
        E == S[6 * n]
    IN E.a \o Flat(E.r)
Unwrap(G(_), c) ==                                \* [ok, p]; Len(c) = 8(n+1), n >= 2
    LET n == Len(c) \div 8 - 1
        S[s \in 0..(6 * n)] ==                    \* s steps undone: undoing step t = 6n - s + 1
            IF s = 0 THEN [a |-> Take(c, 8), r |-> [i \in 1..n |-> Semi(c, i + 1)]]
            ELSE LET q == S[s - 1]
                     t == 6 * n - s + 1
                     i == ((t - 1) % n) + 1
                     b == G(XorB(q.a, KwT(t)) \o q.r[i])
                 IN [a |-> Take(b, 8), r |-> [q.r EXCEPT ![i] = Drop(b, 8)]]
        E == S[6 * n]
    IN [ok |-> E.a = KwIv, p |-> Flat(E.r)]

\* ------------------------------------------------------------------ CMAC (SP 800-38B)
Cmac(F(_), m) ==
    LET L    == F(Zeros(16))
        K1   == DblBE(L)
        K2   == DblBE(K1)
        n    == IF Len(m) = 0 THEN 1 ELSE CeilDiv(Len(m), 16)
        full == Len(m) > 0 /\ Len(m) % 16 = 0
        lastRaw == Drop(m, 16 * (n - 1))
        last == IF full THEN XorB(lastRaw, K1) ELSE XorB(lastRaw \o <<128>> \o Zeros(15 - Len(lastRaw)), K2)
        X[i \in 0..(n - 1)] == IF i = 0 THEN Zeros(16) ELSE F(XorB(X[i - 1], Blk(m, i)))
    IN F(XorB(X[n - 1], last))

\* ------------------------------------------------------------------ HMAC (RFC 2104), B = block size of H in bytes
Hmac(H(_), B, k, m) ==
    LET k0 == IF Len(k) > B THEN H(k) ELSE k
        kp == k0 \o Zeros(B - Len(k0))
    IN H(XorB(kp, Rep(92, B)) \o H(XorB(kp, Rep(54, B)) \o m))

\* ------------------------------------------------------------------ HKDF (RFC 5869), HL = digest size of H
Hkdf(H(_), B, HL, salt, ikm, info, L) ==
    LET prk == Hmac(H, B, IF Len(salt) = 0 THEN Zeros(HL) ELSE salt, ikm)
        n   == CeilDiv(L, HL)
        R[i \in 0..n] == IF i = 0 THEN [t |-> <<>>, acc |-> <<>>]
                         ELSE LET p == R[i - 1]
                                  t == Hmac(H, B, prk, p.t \o info \o <<i>>)
                              IN [t |-> t, acc |-> p.acc \o t]
    IN Take(R[n].acc, L)

\* ------------------------------------------------------------------ SPSDK-specific derivations
\* Key store of the RTxxx / LPC55Sxx boot ROM: AES-256-ECB of fixed blocks under the 32-byte master / user key
KsConst(which) == CASE which = "hmac"      -> Zeros(16)
                    [] which = "enc_image" -> (<<1>> \o Zeros(15)) \o (<<2>> \o Zeros(15))
                    [] which = "sb_kek"    -> (<<3>> \o Zeros(15)) \o (<<4>> \o Zeros(15))
KsDerive(F(_), which, otfadInput) == EcbEnc(F, IF which = "otfad" THEN otfadInput ELSE KsConst(which))
\* SB3.1 key derivation (SP 800-108 counter-mode KDF with CMAC as PRF, the layout of the ELS CKDF command):
\*   data(i) = label (derivation constant, 12 bytes LE) || context (8 zero bytes, access rights << 6, mode, 0, key option)
\*             || requested length in bits (4 bytes BE) || i (4 bytes BE);   key = CMAC(data(1)) [ || CMAC(data(2)) for 256 bits ]
Sb31Data(const12, rights, mode, keyBits, i) ==
    const12 \o Zeros(8) \o <<rights * 64, IF mode = "kdk" THEN 1 ELSE 16, 0, IF keyBits = 128 THEN 32 ELSE 33>> \o BE(4, keyBits) \o BE(4, i)
Sb31Derive(F(_), const12, rights, mode, keyBits) ==
    Cmac(F, Sb31Data(const12, rights, mode, keyBits, 1))
    \o (IF keyBits = 256 THEN Cmac(F, Sb31Data(const12, rights, mode, keyBits, 2)) ELSE <<>>)
=============================================================================
