CONSTANTS MaxLen = 3
INIT Init
NEXT Next
INVARIANT Shape
INVARIANT EmptyMsg
INVARIANT Residue
INVARIANT Emit
CHECK_DEADLOCK FALSE
