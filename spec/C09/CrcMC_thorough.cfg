CONSTANTS MaxLen = 4
INIT Init
NEXT Next
INVARIANT Shape
INVARIANT EmptyMsg
INVARIANT Residue
INVARIANT Emit
CHECK_DEADLOCK FALSE
