INIT HInit
NEXT HNext
CONSTRAINT Constr
POSTCONDITION HPost
CHECK_DEADLOCK FALSE
