------------------------------ MODULE CounterMC ------------------------------
(* MC form: small menus of nonces, start words, ctr_value arguments and increments chosen so that   *)
(* carries between the limbs and the 32-bit wrap are reachable within a few steps.                  *)
EXTENDS Counter, TLC
CONSTANTS MaxOps
Prefix12 == <<160, 161, 162, 163, 164, 165, 166, 167, 168, 169, 170, 171>>
StartWords == {<<0, 0>>, <<0, 65535>>, <<4660, 22136>>, <<32767, 65535>>, <<65535, 65534>>, <<65535, 65535>>}
CtrValues  == {<<0, 0>>, <<0, 1>>, <<1, 0>>, <<65535, 65535>>, <<32768, 0>>}
Incs       == {<<0, 0>>, <<0, 1>>, <<0, 2>>, <<0, 16>>, <<0, 21>>, <<0, 65535>>, <<1, 0>>, <<32768, 1>>, <<65535, 65535>>}
VARIABLE nops
vars == <<cvars, nops>>
NonceOf(w, bigEndian) == Prefix12 \o Enc32(w, bigEndian)
Init == CInit /\ nops = 0
Step(A) == nops < MaxOps /\ A /\ nops' = nops + 1
\* (TLC's coverage report names the innermost defined operator: NewCase / IncPlain / IncWrapping / DoRead are the four actions)
NewCase(w, g, cv, o) == (g \/ cv = <<0, 0>>) /\ Step(New(NonceOf(w, o), g, cv, o))
IncPlain(g, k)       == (g \/ k = <<0, 1>>) /\ ~Carries(ctr, IF g THEN k ELSE One32) /\ Step(Inc(g, k))
IncWrapping(g, k)    == (g \/ k = <<0, 1>>) /\ Carries(ctr, IF g THEN k ELSE One32) /\ Step(Inc(g, k))          \* the 32-bit wrap
DoNew     == \E w \in StartWords : \E g \in BOOLEAN : \E cv \in CtrValues : \E o \in BOOLEAN : NewCase(w, g, cv, o)
DoInc     == \E g \in BOOLEAN : \E k \in Incs : IncPlain(g, k)
DoIncWrap == \E g \in BOOLEAN : \E k \in Incs : IncWrapping(g, k)
DoRead    == phase = "live" /\ Step(Read)
Next == DoNew \/ DoInc \/ DoIncWrap \/ DoRead
Spec == Init /\ [][Next]_vars
\* the limb arithmetic is a group action: two increments are one increment by the sum, order does not matter
ASSUME IncAdditive == \A w \in StartWords \cup Incs, a \in Incs, b \in Incs :
                         /\ Add32(Add32(w, a), b) = Add32(w, Add32(a, b))
                         /\ Add32(Add32(w, a), b) = Add32(Add32(w, b), a)
                         /\ Dec32(Enc32(w, TRUE), TRUE) = w /\ Dec32(Enc32(w, FALSE), FALSE) = w
                         /\ Enc32(<<4660, 22136>>, TRUE) = <<18, 52, 86, 120>> /\ Enc32(<<4660, 22136>>, FALSE) = <<120, 86, 52, 18>>
\* the value never leaves 32 bits although the history total does
Wrapped == phase = "live" /\ total[1] > 0
NoWrapSeen == ~Wrapped            \* NOT an invariant: used (negated) to show that the wrap is reachable
=============================================================================
