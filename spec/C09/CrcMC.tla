------------------------------- MODULE CrcMC -------------------------------
(* MC / GEN form of Crc: the catalogue check values and the residue theorems are proved over a      *)
(* case space of short messages; every case is emitted (with the CRC TLC computed) for replay on    *)
(* spsdk.crypto.crc.                                                                                *)
EXTENDS Crc, TLC, Json
CONSTANTS MaxLen                   \* all messages up to this length over Menu
VARIABLES alg, msg
vars == <<alg, msg>>
Menu == {0, 1, 49, 128, 255}
Check == <<49, 50, 51, 52, 53, 54, 55, 56, 57>>                    \* "123456789"
Special == {Check, <<255, 255, 255>>, [i \in 1..16 |-> 0], [i \in 1..12 |-> 255], [i \in 1..20 |-> (i * 53) % 256]}
Init == alg \in CrcAlgs /\ msg \in (UNION {[1..k -> Menu] : k \in 0..MaxLen} \cup Special)
Next == UNCHANGED vars
\* catalogue check values
ASSUME CheckValues == /\ Crc("crc32", Check) = <<203, 244, 57, 38>>            \* CBF43926
                      /\ Crc("crc32-mpeg", Check) = <<3, 118, 230, 231>>       \* 0376E6E7
                      /\ Crc("crc16-xmodem", Check) = <<49, 195>>              \* 31C3
                      /\ Crc("crc32-mpeg", <<255, 255, 255>>) = <<255, 0, 0, 0>> /\ Crc("crc16-xmodem", <<255, 255, 255>>) = <<210, 108>>
Shape == Len(Crc(alg, msg)) = CrcWidthBytes(alg)
EmptyMsg == msg = <<>> => Crc(alg, msg) = BytesOf(XorBits(CrcParams(alg).init, CrcParams(alg).xorout))
\* residue: a message followed by its own CRC (in transmission order) leaves a constant in the register
Rev(s) == [i \in 1..Len(s) |-> s[Len(s) + 1 - i]]
Residue == LET c == Crc(alg, msg) IN
           CASE alg = "crc32"        -> Crc(alg, msg \o Rev(c)) = <<33, 68, 223, 28>>     \* 2144DF1C
             [] alg = "crc32-mpeg"   -> Crc(alg, msg \o c) = <<0, 0, 0, 0>>
             [] alg = "crc16-xmodem" -> Crc(alg, msg \o c) = <<0, 0>>
Emit == PrintT(ToJson([alg |-> alg, msg |-> msg, crc |-> Crc(alg, msg)]))
=============================================================================
