------------------------------- MODULE Counter -------------------------------
(* C09 R-spec, part 3: the AES-CTR block-counter helper (spsdk.crypto.symmetric.Counter).          *)
(* A counter object is made from a 16-byte nonce: the first 12 bytes are kept, the last four are    *)
(* the start word of a 32-bit block counter in the configured byte order, to which an optional      *)
(* ctr_value is added.  increment(k) states that k more blocks have been consumed.  The observable  *)
(* `value` is the 16-byte counter block  prefix || enc32(counter)  that positions the AES-CTR key   *)
(* stream.  The counter word is the 32-bit word of the consuming hardware (SB2 ROM, BEE, OTFAD,     *)
(* IEE): it advances EXACTLY by the stated number of blocks, modulo 2^32, and never touches the     *)
(* prefix.  32-bit quantities are pairs <<hi, lo>> of 16-bit limbs (TLC integers are 32-bit signed) *)
(* so that the wrap is reachable and checked.                                                       *)
EXTENDS Naturals, Sequences
VARIABLES phase,      \* "none" before the object exists, "live" afterwards
          prefix,     \* the 12 nonce bytes in front of the counter word
          be,         \* TRUE: counter word encoded big-endian, FALSE: little-endian
          ctr,        \* <<hi, lo>>
          total,      \* history variable: start word + ctr_value + all stated increments as an UNBOUNDED natural <<t2, t1, t0>>
          act         \* the action that led here (what the replayer executes / what a trace event names)
cvars == <<phase, prefix, be, ctr, total, act>>
Limb == 65536
Zero32 == <<0, 0>>
One32 == <<0, 1>>
Add32(w, k)  == LET s0 == w[2] + k[2]
                    s1 == w[1] + k[1] + s0 \div Limb
                IN <<s1 % Limb, s0 % Limb>>                                          \* (w + k) mod 2^32
Carries(w, k) == w[1] + k[1] + (w[2] + k[2]) \div Limb >= Limb                      \* w + k >= 2^32
AddWide(t, k) == LET s0 == t[3] + k[2]
                     s1 == t[2] + k[1] + s0 \div Limb
                 IN <<t[1] + s1 \div Limb, s1 % Limb, s0 % Limb>>                    \* t + k, no modulus
Enc32(w, bigEndian) == LET b == <<w[1] \div 256, w[1] % 256, w[2] \div 256, w[2] % 256>>
                       IN IF bigEndian THEN b ELSE <<b[4], b[3], b[2], b[1]>>
Dec32(b, bigEndian) == LET c == IF bigEndian THEN b ELSE <<b[4], b[3], b[2], b[1]>>
                       IN <<c[1] * 256 + c[2], c[3] * 256 + c[4]>>
Value == prefix \o Enc32(ctr, be)                                                     \* the observable

CInit == phase = "none" /\ prefix = <<>> /\ be = FALSE /\ ctr = Zero32 /\ total = <<0, 0, 0>> /\ act = [op |-> "init"]
\* Counter(nonce16, ctr_value = cv if given, byte order)
New(nonce16, given, cv, bigEndian) ==
    /\ phase = "none" /\ Len(nonce16) = 16
    /\ LET w == Dec32(SubSeq(nonce16, 13, 16), bigEndian)
           a == IF given THEN cv ELSE Zero32
       IN ctr' = Add32(w, a) /\ total' = AddWide(<<0, w[1], w[2]>>, a)
    /\ phase' = "live" /\ prefix' = SubSeq(nonce16, 1, 12) /\ be' = bigEndian
    /\ act' = [op |-> "new", nonce |-> nonce16, cvg |-> given, cv |-> cv, be |-> bigEndian]
\* increment(k); increment() means one block
Inc(given, k) ==
    /\ phase = "live"
    /\ LET a == IF given THEN k ELSE One32
       IN ctr' = Add32(ctr, a) /\ total' = AddWide(total, a)
    /\ UNCHANGED <<phase, prefix, be>>
    /\ act' = [op |-> "inc", kg |-> given, k |-> k]
\* reading the value changes nothing
Read == phase = "live" /\ UNCHANGED <<phase, prefix, be, ctr, total>> /\ act' = [op |-> "read"]

\* ---- what "advances exactly by the number of blocks stated" means
Exact  == phase = "live" => ctr = <<total[2], total[3]>>               \* counter = (start + sum of increments) mod 2^32
Shape  == phase = "live" => /\ Len(Value) = 16 /\ SubSeq(Value, 1, 12) = prefix
                            /\ Dec32(SubSeq(Value, 13, 16), be) = ctr
                            /\ \A i \in 1..16 : Value[i] \in 0..255
PrefixFrozen == [][phase = "live" => prefix' = prefix /\ be' = be /\ phase' = "live"]_cvars
=============================================================================
