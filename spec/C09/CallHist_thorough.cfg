CONSTANTS Deep = TRUE
INIT Init
NEXT Next
INVARIANT TypeOK
CHECK_DEADLOCK FALSE
