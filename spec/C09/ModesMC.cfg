INIT Init
NEXT Next
INVARIANT EcbInverts
INVARIANT CbcInverts
INVARIANT CtrInverts
INVARIANT XtsInverts
INVARIANT CcmInverts
INVARIANT KwInverts
INVARIANT CmacShape
INVARIANT HmacLaws
INVARIANT HkdfLaws
INVARIANT Sb31Laws
INVARIANT KsLaws
CHECK_DEADLOCK FALSE
