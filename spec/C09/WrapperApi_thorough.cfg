CONSTANTS Deep = TRUE
INIT Init
NEXT Next
INVARIANT Emit
CHECK_DEADLOCK FALSE
