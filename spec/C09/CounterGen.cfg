CONSTANTS MaxOps = 100
INIT GInit
NEXT GNext
CHECK_DEADLOCK FALSE
