------------------------------ MODULE ApiTrace ------------------------------
(* TV form of the wrapper part of C09.  One trace = one abstract case of WrapperApi, concretised    *)
(* and executed on the real spsdk.crypto wrappers; one event per call:                              *)
(*   op    the abstract operation (enc, dec, mac, verify, derive, hash, calc ...), fn the SPSDK name *)
(*   a     every argument the call was given (byte strings as lists; *g flags: optional given?)     *)
(*   out   what happened: [k: "ret" | "err" (SPSDKError) | "exc" (any other exception), v: bytes]    *)
(*   tab   the evaluations of the PRIMITIVE (one-block AES / SM4, hash) the trusted base made for    *)
(*         the case: [k: key slot, x: input, y: output]; with full = TRUE the expected bytes are     *)
(*         COMPUTED HERE from CipherModes / Crc over that table, ref (the bytes the Python reference *)
(*         implementation produced) must agree (clause "oracle": spec and reference are bound to     *)
(*         each other); with full = FALSE (long messages) ref is taken as the expected value.       *)
(* The state carries the first call of the pair (message, parameters in effect, observed result) so *)
(* that the inversion law D(E(m)) = m (modulo the documented zero padding) is decided on the real   *)
(* bytes, independently of the table.  Every step either conforms (Judge = "ok") or the trace stops *)
(* there; the clause that failed is printed by the postcondition.                                   *)
EXTENDS CipherModes, Crc, TLC, Json, IOUtils
Traces == ndJsonDeserialize(IOEnv.TRACE_FILE)
CrcMaxLen == atoi(IOEnv.CRC_MAX)             \* CRCs of messages up to this length are computed by TLC bit by bit

\* ------------------------------------------------------------------ primitive tables
LookF(tab, kid, x) == LET I == {i \in 1..Len(tab) : tab[i].k = kid /\ tab[i].x = x} IN IF I = {} THEN Zeros(16) ELSE tab[CHOOSE i \in I : TRUE].y
LookG(tab, kid, y) == LET I == {i \in 1..Len(tab) : tab[i].k = kid /\ tab[i].y = y} IN IF I = {} THEN Zeros(16) ELSE tab[CHOOSE i \in I : TRUE].x
LookH(tab, hl, x)  == LET I == {i \in 1..Len(tab) : tab[i].k = 0 /\ tab[i].x = x} IN IF I = {} THEN Zeros(hl) ELSE tab[CHOOSE i \in I : TRUE].y
HashAlgs == {"sha1", "sha256", "sha384", "sha512", "md5", "sm3"}
HashLen(alg)  == CASE alg = "sha1" -> 20 [] alg = "sha256" -> 32 [] alg = "sha384" -> 48 [] alg = "sha512" -> 64 [] alg = "md5" -> 16 [] alg = "sm3" -> 32
HashBlock(alg) == IF alg \in {"sha384", "sha512"} THEN 128 ELSE 64

\* ------------------------------------------------------------------ expectations
ValX(v)      == [k |-> "val", v |-> v, r |-> v]              \* must return exactly v
ValR(v, r)   == [k |-> "val", v |-> v, r |-> r]              \* must return v; the reference logged r
ErrX         == [k |-> "err", v |-> <<>>, r |-> <<>>]        \* documented refusal: SPSDKError
RejX         == [k |-> "reject", v |-> <<>>, r |-> <<>>]     \* authenticity failure: must not return a value
AnyX         == [k |-> "any", v |-> <<>>, r |-> <<>>]        \* outside the asserted domain
V(ev, computed) == IF ev.full THEN computed ELSE ev.ref
AesKeyOk(n)  == n \in {16, 24, 32}
KeyOk(alg, n) == IF alg = "sm4" THEN n = 16 ELSE AesKeyOk(n)
EffIv(a)     == IF a.ivg THEN a.iv ELSE Zeros(16)            \* a defaulted IV is the zero IV (on both sides)
EffAad(a)    == IF a.aadg THEN a.aad ELSE <<>>
EffTl(a)     == IF a.tlg THEN a.tl ELSE 16
EffAlg(a)    == IF a.algg THEN a.alg ELSE "sha256"

XEcb(ev) == LET a == ev.a
                F(x) == LookF(ev.tab, 1, x)
                G(y) == LookG(ev.tab, 1, y)
            IN IF ~AesKeyOk(Len(a.key)) \/ Len(a.d) % 16 # 0 THEN AnyX
               ELSE ValX(V(ev, IF ev.op = "enc" THEN EcbEnc(F, a.d) ELSE EcbDec(G, a.d)))
XCbc(C, ev) == LET a == ev.a
                   F(x) == LookF(ev.tab, 1, x)
                   G(y) == LookG(ev.tab, 1, y)
               IN IF ~KeyOk(C.p.alg, Len(a.key)) \/ (a.ivg /\ Len(a.iv) # 16) THEN ErrX          \* ":raises SPSDKError: Invalid Key or IV"
                  ELSE IF ev.op = "enc" THEN ValX(V(ev, CbcEnc(F, EffIv(a), Pad0(a.d, 16))))
                  ELSE IF Len(a.d) % 16 # 0 THEN AnyX
                  ELSE ValX(V(ev, CbcDec(G, EffIv(a), a.d)))
XCtr(ev) == LET a == ev.a
                F(x) == LookF(ev.tab, 1, x)
            IN IF ~AesKeyOk(Len(a.key)) \/ Len(a.nonce) # 16 THEN AnyX ELSE ValX(V(ev, Ctr(F, a.nonce, a.d)))
XXts(ev) == LET a == ev.a
                F1(x) == LookF(ev.tab, 1, x)
                G1(y) == LookG(ev.tab, 1, y)
                F2(x) == LookF(ev.tab, 2, x)
            IN IF Len(a.key) \notin {32, 64} \/ Len(a.tweak) # 16 \/ Len(a.d) < 16 THEN AnyX
               ELSE ValX(V(ev, IF ev.op = "enc" THEN XtsEnc(F1, F2, a.tweak, a.d) ELSE XtsDec(G1, F2, a.tweak, a.d)))
CcmDomain(a) == AesKeyOk(Len(a.key)) /\ Len(a.nonce) \in 7..13 /\ EffTl(a) \in {4, 6, 8, 10, 12, 14, 16}
XCcm(ev) == LET a == ev.a
                F(x) == LookF(ev.tab, 1, x)
            IN IF ~CcmDomain(a) THEN AnyX
               ELSE IF ev.op = "enc" THEN ValX(V(ev, CcmEnc(F, a.nonce, a.d, EffAad(a), EffTl(a))))
               ELSE LET r == IF ev.full THEN CcmDec(F, a.nonce, a.d, EffAad(a), EffTl(a)) ELSE [ok |-> ev.ref[1] = 1, m |-> Tail(ev.ref)]
                    IN IF r.ok THEN ValR(r.m, <<1>> \o r.m) ELSE [RejX EXCEPT !.r = <<0>>]      \* authenticated decryption: ref = <<1>> \o plaintext | <<0>>
XKw(ev) == LET a == ev.a
               F(x) == LookF(ev.tab, 1, x)
               G(y) == LookG(ev.tab, 1, y)
           IN IF ~AesKeyOk(Len(a.key)) \/ Len(a.d) % 8 # 0 \/ Len(a.d) < (IF ev.op = "enc" THEN 16 ELSE 24) THEN AnyX
              ELSE IF ev.op = "enc" THEN ValX(V(ev, Wrap(F, a.d)))
              ELSE LET r == IF ev.full THEN Unwrap(G, a.d) ELSE [ok |-> ev.ref[1] = 1, p |-> Tail(ev.ref)]
                   IN IF r.ok THEN ValR(r.p, <<1>> \o r.p) ELSE [RejX EXCEPT !.r = <<0>>]
\* hashes: one-shot, or an object fed chunk by chunk (an integer chunk is its minimal big-endian encoding)
ChunkOk(c) == c.t = "b" \/ (c.t = "i" /\ Len(c.v) > 0 /\ c.v[1] # 0)
HashInput(a) == Flat([i \in 1..Len(a.chunks) |-> a.chunks[i].v])
XHash(ev) == LET a == ev.a
                 alg == EffAlg(a)
             IN IF alg \notin HashAlgs THEN ErrX                                                  \* ":raises SPSDKError: If algorithm not found"
                ELSE IF ev.op = "hash_len" THEN ValX(<<HashLen(alg)>>)
                ELSE ValX(V(ev, LookH(ev.tab, HashLen(alg), HashInput(a))))
MacX(ev, mac) == IF ev.op = "mac" THEN ValX(mac) ELSE ValR(<<IF ev.a.sig = mac THEN 1 ELSE 0>>, mac)
XHmac(ev) == LET a == ev.a
                 alg == EffAlg(a)
                 H(x) == LookH(ev.tab, HashLen(alg), x)
             IN IF alg \notin HashAlgs THEN ErrX ELSE MacX(ev, V(ev, Hmac(H, HashBlock(alg), a.key, a.d)))
XCmac(ev) == LET a == ev.a
                 F(x) == LookF(ev.tab, 1, x)
             IN IF ~AesKeyOk(Len(a.key)) THEN AnyX ELSE MacX(ev, V(ev, Cmac(F, a.d)))
XHkdf(ev) == LET a == ev.a
                 H(x) == LookH(ev.tab, 32, x)
             IN IF a.L < 1 \/ a.L > 255 * 32 THEN AnyX ELSE ValX(V(ev, Hkdf(H, 64, 32, a.salt, a.ikm, a.info, a.L)))
XKs(ev) == LET a == ev.a
               F(x) == LookF(ev.tab, 1, x)
           IN IF Len(a.key) # 32 \/ (a.which = "otfad" /\ Len(a.inp) # 16) THEN ErrX               \* ":raises SPSDKError: If invalid length ..."
              ELSE ValX(V(ev, KsDerive(F, a.which, a.inp)))
XSb31(ev) == LET a == ev.a
                 F(x) == LookF(ev.tab, 1, x)
             IN IF a.rights \notin 0..3 \/ a.bits \notin {128, 256} THEN ErrX                      \* "Invalid kdk access rights" / "Invalid key length"
                ELSE IF ~AesKeyOk(Len(a.key)) \/ Len(a.const) # 12 THEN AnyX
                ELSE ValX(V(ev, Sb31Derive(F, a.const, a.rights, a.mode, a.bits)))
XCrc(ev) == LET a == ev.a
                crc == IF Len(a.d) <= CrcMaxLen THEN Crc(a.alg, a.d) ELSE ev.ref
            IN IF a.alg \notin CrcAlgs THEN AnyX
               ELSE IF ev.op = "calc" THEN ValX(crc) ELSE ValR(<<IF a.crc = crc THEN 1 ELSE 0>>, crc)
Expect(C, ev) == CASE C.fam = "ecb"  -> XEcb(ev)    [] C.fam = "cbc"  -> XCbc(C, ev) [] C.fam = "ctr"  -> XCtr(ev)
                   [] C.fam = "xts"  -> XXts(ev)    [] C.fam = "ccm"  -> XCcm(ev)    [] C.fam = "kw"   -> XKw(ev)
                   [] C.fam = "hash" -> XHash(ev)   [] C.fam = "hmac" -> XHmac(ev)   [] C.fam = "cmac" -> XCmac(ev)
                   [] C.fam = "hkdf" -> XHkdf(ev)   [] C.fam = "ks"   -> XKs(ev)     [] C.fam = "sb31" -> XSb31(ev)
                   [] C.fam = "crc"  -> XCrc(ev)

\* ------------------------------------------------------------------ the pair state (first call of an encrypt / decrypt pair)
Ciphers == {"ecb", "cbc", "ctr", "xts", "ccm", "kw"}
St0 == [have |-> FALSE, key |-> <<>>, m |-> <<>>, c |-> <<>>, iv |-> <<>>, aad |-> <<>>, tl |-> 0]
ParIv(C, a)  == CASE C.fam = "cbc" -> EffIv(a) [] C.fam = "ctr" -> a.nonce [] C.fam = "xts" -> a.tweak [] C.fam = "ccm" -> a.nonce [] OTHER -> <<>>
ParAad(C, a) == IF C.fam = "ccm" THEN EffAad(a) ELSE <<>>
ParTl(C, a)  == IF C.fam = "ccm" THEN EffTl(a) ELSE 0
NextSt(C, st, ev) ==
    IF C.fam \in Ciphers /\ ev.op = "enc"
    THEN [have |-> ev.out.k = "ret", key |-> ev.a.key, m |-> ev.a.d, c |-> ev.out.v, iv |-> ParIv(C, ev.a), aad |-> ParAad(C, ev.a), tl |-> ParTl(C, ev.a)]
    ELSE IF C.fam = "sb31" THEN [St0 EXCEPT !.have = ev.out.k = "ret", !.c = ev.out.v]
    ELSE st
Linked(C, ev) == (C.fam \in Ciphers /\ ev.op = "dec" /\ ev.a.link) \/ (C.fam = "sb31" /\ ev.a.link)
LinkOk(C, st, ev) == st.have /\ (IF C.fam = "sb31" THEN ev.a.key = st.c ELSE ev.a.d = st.c /\ ev.a.key = st.key)
SameParams(C, st, ev) == ParIv(C, ev.a) = st.iv /\ ParAad(C, ev.a) = st.aad /\ ParTl(C, ev.a) = st.tl
\* D(E(m)) = m; for the CBC wrappers modulo the zero padding the encrypting side documents (align_block)
RoundTrip(C, st, ev) == /\ ev.out.k = "ret" /\ Len(ev.out.v) >= Len(st.m) /\ Take(ev.out.v, Len(st.m)) = st.m
                        /\ IF C.fam = "cbc" THEN Len(ev.out.v) = AlignUp(Len(st.m), 16) /\ AllZero(Drop(ev.out.v, Len(st.m)))
                                            ELSE Len(ev.out.v) = Len(st.m)

\* ------------------------------------------------------------------ the concrete call is an instance of the abstract case it claims to instantiate
IvKindOk(kind, a) == CASE kind = "default" -> ~a.ivg
                       [] kind \in {"given", "other"} -> a.ivg /\ Len(a.iv) = 16
                       [] kind = "short" -> a.ivg /\ Len(a.iv) = 8
                       [] kind = "long" -> a.ivg /\ Len(a.iv) = 17
                       [] OTHER -> TRUE
Concrete(C, ev) ==
    LET p == C.p
        a == ev.a
    IN CASE C.fam \in {"ecb", "ctr", "xts", "kw"} /\ ev.op = "enc" -> Len(a.key) = p.kl /\ Len(a.d) = p.ml
         [] C.fam = "cbc" /\ ev.op = "enc" -> Len(a.key) = p.kl /\ Len(a.d) = p.ml /\ IvKindOk(p.ive, a)
         [] C.fam = "cbc" /\ ev.op = "dec" -> Len(a.key) = p.kl /\ IvKindOk(p.ivd, a)
         [] C.fam = "ccm" /\ ev.op = "enc" -> /\ Len(a.key) = p.kl /\ Len(a.d) = p.ml /\ Len(a.nonce) = p.nl
                                              /\ a.tlg = (p.tag # 0) /\ (a.tlg => a.tl = p.tag) /\ a.aadg = (p.aad # "default")
         [] C.fam = "cmac" -> Len(a.key) = p.kl /\ Len(a.d) = p.ml
         [] C.fam = "hmac" -> Len(a.key) = p.kl /\ Len(a.d) = p.ml /\ a.algg = (p.alg # "default") /\ (a.algg => a.alg = p.alg)
         [] C.fam = "hash" -> /\ a.algg = (p.alg # "default") /\ (a.algg => a.alg = p.alg) /\ Len(a.chunks) = Len(p.chunks)
                              /\ \A i \in 1..Len(a.chunks) : a.chunks[i].t = p.chunks[i].t /\ Len(a.chunks[i].v) = p.chunks[i].n /\ ChunkOk(a.chunks[i])
         [] C.fam = "hkdf" -> Len(a.salt) = p.sl /\ Len(a.ikm) = p.il /\ Len(a.info) = p.fl /\ a.L = p.L
         [] C.fam = "ks" -> a.which = p.which /\ Len(a.key) = p.kl /\ (p.which = "otfad" => Len(a.inp) = p.il)
         [] C.fam = "sb31" /\ ~a.link -> Len(a.key) = p.kl /\ a.bits = p.bits /\ a.rights = p.rights /\ a.mode = (IF p.api = "blk" THEN "blk" ELSE "kdk")
         [] C.fam = "crc" -> a.alg = p.alg /\ a.d = p.msg
         [] OTHER -> TRUE

\* ------------------------------------------------------------------ the verdict on one event
Judge(C, st, ev) ==
    LET X == Expect(C, ev) IN
    IF ~Concrete(C, ev) THEN "concretise"                                                  \* harness error
    ELSE IF Linked(C, ev) /\ ~LinkOk(C, st, ev) THEN "link"                                \* harness error
    ELSE IF ev.full /\ X.k \in {"val", "reject"} /\ ev.ref # X.r THEN "oracle"              \* reference implementation and spec disagree (harness error)
    ELSE IF X.k = "any" THEN "ok"
    ELSE IF X.k = "err" THEN (IF ev.out.k = "err" THEN "ok" ELSE "class")
    ELSE IF X.k = "reject" THEN (IF ev.out.k \in {"err", "exc"} THEN "ok" ELSE "class")
    ELSE IF ev.out.k # "ret" THEN "class"
    ELSE IF Linked(C, ev) /\ C.fam \in Ciphers /\ SameParams(C, st, ev) /\ ~RoundTrip(C, st, ev) THEN "roundtrip"
    ELSE IF Len(ev.out.v) # Len(X.v) THEN "length"
    ELSE IF ev.out.v # X.v THEN "value"
    ELSE "ok"

VARIABLES tid, l, st
tvars == <<tid, l, st>>
TR == Traces[tid]
TInit == tid \in 1..Len(Traces) /\ l = 1 /\ st = St0 /\ TLCSet(tid, 1)
TStep == /\ l <= Len(TR.ev)
         /\ Judge(TR.case, st, TR.ev[l]) = "ok"
         /\ st' = NextSt(TR.case, st, TR.ev[l])
         /\ l' = l + 1 /\ UNCHANGED tid
TNext == TStep
Constr == IF TLCGet(tid) < l THEN TLCSet(tid, l) ELSE TRUE
StAt(tr, j) == LET S[i \in 0..j] == IF i = 0 THEN St0 ELSE NextSt(tr.case, S[i - 1], tr.ev[i]) IN S[j]
Post == \A i \in 1..Len(Traces) :
          LET tr == Traces[i]
              m  == TLCGet(i) - 1                         \* events matched
          IN \/ m = Len(tr.ev)
             \/ LET ev == tr.ev[m + 1]
                IN PrintT(<<"REJ", tr.id, m, Len(tr.ev), ev.fn, Judge(tr.case, StAt(tr, m), ev), Expect(tr.case, ev).k, ev.out.k>>)
=============================================================================
