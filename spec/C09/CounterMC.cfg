CONSTANTS MaxOps = 4
SPECIFICATION Spec
INVARIANT Exact
INVARIANT Shape
PROPERTY PrefixFrozen
CHECK_DEADLOCK FALSE
