------------------------------ MODULE CallHist ------------------------------
(* C09, histories of calls.  The functions of spsdk.crypto.* (and the two SPSDK derivations) are     *)
(* FUNCTIONS: the property quantifies over their arguments only, so in the reference model the      *)
(* module has NO state - the result of a call is the term of that call alone, wherever it stands in *)
(* a history of calls made by one process, whatever was called before it, including calls that were *)
(* refused (bad length, bad key size, bad IV, forgery) and calls with the same key / IV / data.     *)
(* The only state the API exposes lives in OBJECTS the caller holds: a Hash object (the bytes fed   *)
(* to it so far), a KeyDerivator (its key-derivation key), a Crc object (none).  Each object's      *)
(* result is a function of the calls made on THAT object.                                           *)
(*                                                                                                  *)
(* This module is the GEN form: TLC generates the histories, as sequences of ABSTRACT calls         *)
(*   [f   the SPSDK function, x  its variant (optional parameters given / defaulted, malformed      *)
(*        parameter, forgery, hash algorithm ...), kl, ml  key / message length, n  a number (tag    *)
(*        length, output length, key bits), ks, is, ds  the SLOT the key / IV-nonce-tweak / data is  *)
(*        taken from - two calls with the same slot and length get the same bytes -, o  the object   *)
(*        slot, dom  whether the call lies in the asserted domain of ApiTrace]                       *)
(*   HIST_MODE = pairs : exhaustively every history <<p, q>> with p any call of a group's menu      *)
(*        (accepted or refused), q every call of the group with an asserted result, and every        *)
(*        relation between their slots (same key+IV+data, same key only, same data only, same key    *)
(*        and data but another IV, nothing shared);                                                  *)
(*   HIST_MODE = walk  : (-simulate) histories of HIST_LEN calls, within one group or over all of    *)
(*        them, with the object operations interleaved over two objects of each kind.               *)
(* The harness executes a history on the real code in ONE fresh process in that order; HistTrace    *)
(* decides every result against the term of that call (and the spec's own object state).            *)
EXTENDS Naturals, Sequences, FiniteSets, TLC, Json, IOUtils
CONSTANTS Deep                      \* FALSE: menus of the quick tier, TRUE: thorough tier
Mode    == IOEnv.HIST_MODE
WalkLen == atoi(IOEnv.HIST_LEN)
VARIABLES hist, focus, hobj, kobj, done
vars == <<hist, focus, hobj, kobj, done>>

B(f, x, kl, ml, n, dom) == [f |-> f, x |-> x, kl |-> kl, ml |-> ml, n |-> n, dom |-> dom]
\* ------------------------------------------------------------------ the menus (dom = FALSE: outcome not asserted, executed all the same)
EcbK == IF Deep THEN {16, 24, 32} ELSE {16, 32}
EcbFns == {"aes_ecb_encrypt", "aes_ecb_decrypt"}
MEcb == {B(f, "", kl, ml, 0, TRUE)  : f \in EcbFns, kl \in EcbK, ml \in (IF Deep THEN {0, 16, 48} ELSE {16, 48})}
   \cup {B(f, "", kl, ml, 0, FALSE) : f \in EcbFns, kl \in EcbK, ml \in (IF Deep THEN {3, 17, 31} ELSE {17})}        \* not a whole number of blocks
   \cup {B(f, "", 15, 16, 0, FALSE) : f \in EcbFns}                                                                   \* not an AES key
MKs  == {B(f, "", 32, 0, 0, TRUE) : f \in {"derive_hmac_key", "derive_enc_image_key", "derive_sb_kek_key"}}
   \cup {B("derive_otfad_kek_key", "", 32, 16, 0, TRUE), B("derive_otfad_kek_key", "", 32, 15, 0, TRUE),              \* 15: refused (SPSDKError)
         B("derive_hmac_key", "", 31, 0, 0, TRUE)}                                                                    \* refused (SPSDKError)
CbcK == IF Deep THEN {16, 24, 32} ELSE {24}
MCbc == {B("aes_cbc_encrypt", x, kl, ml, 0, TRUE) : x \in {"iv"}, kl \in CbcK, ml \in {16, 17}}
   \cup {B("aes_cbc_encrypt", "noiv", kl, 17, 0, TRUE) : kl \in CbcK}
   \cup {B("aes_cbc_encrypt", "ivshort", kl, 16, 0, TRUE) : kl \in CbcK}                                              \* refused: bad IV
   \cup {B("aes_cbc_encrypt", "iv", 15, 16, 0, TRUE)}                                                                 \* refused: bad key
   \cup {B("aes_cbc_decrypt", "iv", kl, 32, 0, TRUE) : kl \in CbcK} \cup {B("aes_cbc_decrypt", "noiv", kl, 16, 0, TRUE) : kl \in CbcK}
   \cup {B("aes_cbc_decrypt", "iv", kl, 17, 0, FALSE) : kl \in CbcK} \cup {B("aes_cbc_decrypt", "ivshort", kl, 16, 0, TRUE) : kl \in CbcK}
   \cup {B("sm4_cbc_encrypt", "iv", 16, 17, 0, TRUE), B("sm4_cbc_encrypt", "noiv", 16, 16, 0, TRUE), B("sm4_cbc_encrypt", "ivshort", 16, 16, 0, TRUE),
         B("sm4_cbc_decrypt", "iv", 16, 16, 0, TRUE), B("sm4_cbc_decrypt", "noiv", 16, 32, 0, TRUE), B("sm4_cbc_decrypt", "iv", 16, 17, 0, FALSE)}
CtrK == IF Deep THEN {16, 24, 32} ELSE {32}
CtrFns == {"aes_ctr_encrypt", "aes_ctr_decrypt"}
MCtr == {B(f, "", kl, ml, 0, TRUE) : f \in CtrFns, kl \in CtrK, ml \in {17, 32}}
   \cup {B("aes_ctr_encrypt", "nshort", kl, 17, 0, FALSE) : kl \in CtrK} \cup {B("aes_ctr_decrypt", "", 15, 17, 0, FALSE)}
XtsK == IF Deep THEN {32, 64} ELSE {32}
XtsFns == {"aes_xts_encrypt", "aes_xts_decrypt"}
MXts == {B(f, "", kl, ml, 0, TRUE) : f \in XtsFns, kl \in XtsK, ml \in {32, 33}} \cup {B(f, "", kl, 15, 0, FALSE) : f \in XtsFns, kl \in XtsK}
CcmK == IF Deep THEN {16, 24, 32} ELSE {16}
\* x: full = associated data and tag length (n) given, plain = both defaulted; n6 = 6-byte nonce; forged = one bit of the cipher text flipped; short = input shorter than the tag
MCcm == {B("aes_ccm_encrypt", "full", kl, 17, 8, TRUE) : kl \in CcmK} \cup {B("aes_ccm_encrypt", "plain", kl, ml, 0, TRUE) : kl \in CcmK, ml \in {0, 17}}
   \cup {B("aes_ccm_encrypt", "n6", kl, 17, 0, FALSE) : kl \in CcmK}
   \cup {B("aes_ccm_decrypt", "full", kl, 17, 8, TRUE) : kl \in CcmK} \cup {B("aes_ccm_decrypt", "plain", kl, 17, 0, TRUE) : kl \in CcmK}
   \cup {B("aes_ccm_decrypt", "forged", kl, 17, 8, TRUE) : kl \in CcmK} \cup {B("aes_ccm_decrypt", "short", kl, 3, 0, TRUE) : kl \in CcmK}
KwK == IF Deep THEN {16, 24, 32} ELSE {24}
MKw  == {B("aes_key_wrap", "", kl, ml, 0, TRUE) : kl \in KwK, ml \in {16, 32}} \cup {B("aes_key_wrap", "", kl, 20, 0, FALSE) : kl \in KwK}
   \cup {B("aes_key_unwrap", "", kl, ml, 0, TRUE) : kl \in KwK, ml \in {16, 32}} \cup {B("aes_key_unwrap", "forged", kl, 16, 0, TRUE) : kl \in KwK}
   \cup {B("aes_key_unwrap", "raw", kl, 20, 0, FALSE) : kl \in KwK}
\* CMAC and the SB3.1 KDF built on it (x of derive_*: the access rights, n: key bits, ml: width of the derivation constant)
MCmac == {B("cmac", "", 16, ml, 0, TRUE) : ml \in {0, 17, 32}} \cup {B("cmac", "", 15, 17, 0, FALSE)}
   \cup (IF Deep THEN {B("cmac", "", kl, 17, 0, TRUE) : kl \in {24, 32}} ELSE {})
   \cup {B("cmac_validate", x, 16, 17, 0, TRUE) : x \in {"good", "bad"}}
   \cup {B("derive_kdk", "r1", 32, 4, 256, TRUE), B("derive_kdk", "r3", 16, 4, 128, TRUE), B("derive_block_key", "r0", 16, 1, 128, TRUE),
         B("derive_block_key", "r4", 16, 1, 128, TRUE)}                                                               \* r4: refused (SPSDKError)
\* hashes, HMAC (x = algorithm [/ signature kind]), HKDF (kl: salt, ml: input key material, x: info given?, n: output length)
MHash == {B("get_hash", "default", 0, 33, 0, TRUE), B("get_hash", "sha256", 0, 0, 0, TRUE), B("get_hash", "sha256", 0, 33, 0, TRUE),
          B("get_hash", "sha1", 0, 33, 0, TRUE), B("get_hash", "sha512", 0, 64, 0, TRUE), B("get_hash", "none", 0, 33, 0, TRUE)}
   \cup {B("hmac", "default", 20, 33, 0, TRUE), B("hmac", "sha1", 20, 33, 0, TRUE), B("hmac", "sha256", 129, 0, 0, TRUE), B("hmac", "none", 20, 33, 0, TRUE)}
   \cup {B("hmac_validate", "sha1/good", 20, 33, 0, TRUE), B("hmac_validate", "sha1/bad", 20, 33, 0, TRUE), B("hmac_validate", "default/good", 20, 33, 0, TRUE)}
   \cup {B("hkdf", "info", 16, 32, 33, TRUE), B("hkdf", "noinfo", 0, 32, 16, TRUE), B("hkdf", "info", 16, 32, 16, TRUE)}
   \cup (IF Deep THEN {B("get_hash", a, 0, 33, 0, TRUE) : a \in {"sha384", "md5", "sm3"}} \cup {B("hmac", a, 20, 33, 0, TRUE) : a \in {"sha384", "sha512", "md5", "sm3"}} ELSE {})
\* CRC: x = algorithm [/ crc kind]; kl = 1: the call goes to the caller's Crc object in slot ks, kl = 0: to a fresh from_crc_algorithm() object
MCrc == {B("crc_calc", "crc32", 1, ml, 0, TRUE) : ml \in {1, 9}} \cup {B("crc_calc", a, 0, 9, 0, TRUE) : a \in {"crc32", "crc16-xmodem"}}
   \cup {B("crc_calc", a, 1, 9, 0, TRUE) : a \in {"crc32-mpeg", "crc16-xmodem"}} \cup {B("crc_calc", "bogus", 0, 9, 0, FALSE)}
   \cup {B("crc_verify", "crc32/good", 1, 9, 0, TRUE), B("crc_verify", "crc32/bad", 1, 9, 0, TRUE), B("crc_verify", "crc16-xmodem/good", 0, 9, 0, TRUE)}
Groups == {"ecb", "cbc", "ctr", "xts", "ccm", "kw", "cmac", "hash", "crc"}
MenuOf(g) == CASE g = "ecb" -> MEcb \cup MKs [] g = "cbc" -> MCbc [] g = "ctr" -> MCtr [] g = "xts" -> MXts [] g = "ccm" -> MCcm
               [] g = "kw" -> MKw [] g = "cmac" -> MCmac [] g = "hash" -> MHash [] g = "crc" -> MCrc
               [] g = "hobj" -> {m \in MHash : m.f = "get_hash"} [] g = "kobj" -> {m \in MCmac : m.f = "cmac"}       \* walks centred on the objects
               [] g = "all" -> MEcb \cup MKs \cup MCbc \cup MCtr \cup MXts \cup MCcm \cup MKw \cup MCmac \cup MHash \cup MCrc

\* ------------------------------------------------------------------ which slots a call draws from
NoKey(f)   == f \in {"get_hash", "Hash", "Hash.update", "Hash.update_int", "Hash.finalize", "KeyDerivator.get_block_key"}
HasIv(b)   == \/ b.f \in {"aes_cbc_encrypt", "aes_cbc_decrypt", "sm4_cbc_encrypt", "sm4_cbc_decrypt"} /\ b.x # "noiv"
              \/ b.f \in CtrFns \cup XtsFns \cup {"aes_ccm_encrypt", "aes_ccm_decrypt"} \/ (b.f = "hkdf" /\ b.x = "info")
NoData(b)  == b.f \in {"derive_hmac_key", "derive_enc_image_key", "derive_sb_kek_key", "Hash", "Hash.finalize"}
Call(b, ks, is, ds, o) == [f |-> b.f, x |-> b.x, kl |-> b.kl, ml |-> b.ml, n |-> b.n, dom |-> b.dom,
                           ks |-> IF NoKey(b.f) THEN 1 ELSE ks, is |-> IF HasIv(b) THEN is ELSE 1, ds |-> IF NoData(b) THEN 1 ELSE ds, o |-> o]
Rels(p, q) == IF ~NoKey(p.f) /\ ~NoKey(q.f) /\ p.kl # q.kl THEN {"same", "none"}
              ELSE {"same", "key", "data", "none"} \cup (IF HasIv(p) /\ HasIv(q) THEN {"iv"} ELSE {})
RelCall(q, rel) == CASE rel = "same" -> Call(q, 1, 1, 1, 0) [] rel = "key" -> Call(q, 1, 2, 2, 0) [] rel = "data" -> Call(q, 2, 1, 1, 0)
                     [] rel = "iv" -> Call(q, 1, 2, 1, 0) [] rel = "none" -> Call(q, 2, 2, 2, 0)

\* ------------------------------------------------------------------ object operations (walk mode): Hash and KeyDerivator objects in slots 1, 2
HashAlgSel == {"default", "sha256", "sha1", "none"} \cup (IF Deep THEN {"sha384", "sha512", "md5", "sm3"} ELSE {})
HashOps == {Call(B("Hash", a, 0, 0, 0, TRUE), 1, 1, 1, o) : a \in HashAlgSel, o \in {oo \in 1..2 : hobj[oo] # "live"}}      \* a live object is used up first
      \cup {Call(B("Hash.update", "", 0, ml, 0, hobj[o] = "live"), 1, 1, ds, o) : ml \in {0, 33, 64}, ds \in 1..2, o \in {oo \in 1..2 : hobj[oo] # "none"}}
      \cup {Call(B("Hash.update_int", "", 0, ml, 0, hobj[o] = "live"), 1, 1, ds, o) : ml \in {1, 4}, ds \in 1..2, o \in {oo \in 1..2 : hobj[oo] # "none"}}
      \cup {Call(B("Hash.finalize", "", 0, 0, 0, hobj[o] = "live"), 1, 1, 1, o) : o \in {oo \in 1..2 : hobj[oo] # "none"}}
KdOps   == {Call(B("KeyDerivator", x, kl, 4, 8 * kl, TRUE), ks, 1, ks, o) : x \in {"r2", "r4"}, kl \in {16, 32}, ks \in 1..2, o \in 1..2}
      \cup {Call(B("KeyDerivator.get_block_key", "", 0, ml, 0, TRUE), 1, 1, ds, o) : ml \in {1, 3}, ds \in 1..2, o \in {oo \in 1..2 : kobj[oo] = "live"}}
ObjOps(g) == (IF g \in {"hash", "hobj", "all"} THEN HashOps ELSE {}) \cup (IF g \in {"cmac", "kobj", "all"} THEN KdOps ELSE {})
HobjNext(c) == IF c.f = "Hash" /\ c.x # "none" THEN [hobj EXCEPT ![c.o] = "live"]
               ELSE IF c.f = "Hash.finalize" /\ hobj[c.o] = "live" THEN [hobj EXCEPT ![c.o] = "fin"] ELSE hobj
KobjNext(c) == IF c.f = "KeyDerivator" /\ c.x # "r4" THEN [kobj EXCEPT ![c.o] = "live"] ELSE kobj

\* ------------------------------------------------------------------ behaviours
Init == /\ hist = <<>> /\ done = FALSE /\ hobj = [o \in 1..2 |-> "none"] /\ kobj = [o \in 1..2 |-> "none"]
        /\ focus \in (IF Mode = "pairs" THEN Groups ELSE Groups \cup {"all", "hobj", "kobj"})
First  == /\ Mode = "pairs" /\ Len(hist) = 0
          /\ \E p \in MenuOf(focus) : hist' = <<Call(p, 1, 1, 1, 0)>>
          /\ UNCHANGED <<focus, hobj, kobj, done>>
Second == /\ Mode = "pairs" /\ Len(hist) = 1
          /\ \E q \in {m \in MenuOf(focus) : m.dom} : \E rel \in Rels(hist[1], q) : hist' = Append(hist, RelCall(q, rel))
          /\ UNCHANGED <<focus, hobj, kobj, done>>
Walk   == /\ Mode = "walk" /\ Len(hist) < WalkLen
          /\ \E c \in {Call(b, ks, is, ds, 0) : b \in MenuOf(focus), ks \in 1..2, is \in 1..2, ds \in 1..2} \cup ObjOps(focus) :
                /\ hist' = Append(hist, c) /\ hobj' = HobjNext(c) /\ kobj' = KobjNext(c)
          /\ UNCHANGED <<focus, done>>
Full   == IF Mode = "pairs" THEN Len(hist) = 2 ELSE Len(hist) = WalkLen
Emit   == /\ Full /\ ~done /\ done' = TRUE /\ PrintT(ToJson(hist)) /\ UNCHANGED <<hist, focus, hobj, kobj>>
Next   == First \/ Second \/ Walk \/ Emit
\* what the reference model says about every generated history (checked by TLC over the whole generated space):
\*   the second call of a pair has an asserted result; an object operation is asserted exactly on a live object
TypeOK == /\ Len(hist) <= (IF Mode = "pairs" THEN 2 ELSE WalkLen)
          /\ \A i \in 1..Len(hist) : hist[i].ks \in 1..2 /\ hist[i].is \in 1..2 /\ hist[i].ds \in 1..2 /\ hist[i].o \in 0..2
          /\ (Mode = "pairs" /\ Len(hist) = 2 => hist[2].dom /\ hist[1].ks = 1 /\ hist[1].is = 1 /\ hist[1].ds = 1)
=============================================================================
