------------------------------ MODULE ModesMC ------------------------------
(* MC form of CipherModes: the primitives are bound to a toy 16-byte permutation (keyed, with its   *)
(* inverse) and a toy hash; the case space (one initial state per case) covers every length class;  *)
(* the invariants are the lemmas the property speaks of: every mode inverts, padding is only        *)
(* appended zeros, a defaulted IV is the zero IV, CTR key streams are positioned by the block        *)
(* counter, authenticated modes refuse what they did not produce, lengths are what the standards    *)
(* say.  They hold for ANY permutation / function, so proving them for the toy pair checks the       *)
(* definitions of CipherModes themselves (the R-spec is consistent before it judges SPSDK).          *)
EXTENDS CipherModes, TLC
VARIABLES fam, p
vars == <<fam, p>>
Msg(n, s) == [i \in 1..n |-> (i * 37 + s * 101 + n) % 256]
Key1 == Msg(16, 1)
Key2 == Msg(16, 2)
ToyE(k, x) == [i \in 1..16 |-> (x[(i % 16) + 1] + k[i] + i * i) % 256]
ToyD(k, y) == [j \in 1..16 |-> LET i == ((j + 14) % 16) + 1 IN (y[i] + 1024 - k[i] - i * i) % 256]
F1(x) == ToyE(Key1, x)
G1(y) == ToyD(Key1, y)
F2(x) == ToyE(Key2, x)
\* toy hash: 8 bytes, block size 16 (so that both HMAC key branches are exercised by short keys)
ToyH(x) == [j \in 1..8 |-> LET S[i \in 0..Len(x)] == IF i = 0 THEN j * 17 ELSE (S[i - 1] * 31 + x[i] * (i + j) + 7) % 251 IN S[Len(x)]]
HB == 16
HL == 8
Flip(s, i) == [s EXCEPT ![i] = s[i] ^^ 1]

Init ==
  \/ fam = "ecb"  /\ p \in [n : {0, 16, 32, 48, 160}]
  \/ fam = "cbc"  /\ p \in [n : 0..50, ivE : {"default", "given"}, ivD : {"default", "same", "other"}]
  \/ fam = "ctr"  /\ p \in [n : 0..50, nonce : {"plain", "carry32", "ones"}, j : 0..2]
  \/ fam = "xts"  /\ p \in [n : 16..70]
  \/ fam = "ccm"  /\ p \in [n : {0, 1, 15, 16, 17, 33}, nl : 7..13, tl : {4, 6, 8, 10, 12, 14, 16}, al : {0, 1, 13, 14, 15, 30}]
  \/ fam = "kw"   /\ p \in [n : {16, 24, 32, 40, 64}]
  \/ fam = "cmac" /\ p \in [n : 0..50]
  \/ fam = "hmac" /\ p \in [kl : {0, 1, 15, 16, 17, 40}, n : {0, 1, 16, 40}]
  \/ fam = "hkdf" /\ p \in [sl : {0, 5, 16, 20}, il : {1, 16}, fl : {0, 3}, L : {1, 7, 8, 9, 16, 30}]
  \/ fam = "sb31" /\ p \in [mode : {"kdk", "blk"}, bits : {128, 256}, rights : 0..3]
  \/ fam = "ks"   /\ p \in [which : {"hmac", "enc_image", "sb_kek", "otfad"}]
Next == UNCHANGED vars

M == Msg(p.n, 3)
Iv(kind) == IF kind = "default" THEN Zeros(16) ELSE IF kind = "other" THEN Msg(16, 5) ELSE Msg(16, 4)
Nonce(kind) == CASE kind = "plain"   -> Msg(16, 6)
                 [] kind = "carry32" -> Msg(12, 6) \o Rep(255, 4)
                 [] kind = "ones"    -> Rep(255, 16)
RECURSIVE IncN(_, _)
IncN(b, j) == IF j = 0 THEN b ELSE IncN(IncBE(b), j - 1)

EcbInverts == fam = "ecb" => LET c == EcbEnc(F1, M) IN Len(c) = p.n /\ EcbDec(G1, c) = M
CbcInverts == fam = "cbc" =>
    LET ive == Iv(p.ivE)
        ivd == IF p.ivD = "same" THEN ive ELSE Iv(p.ivD)
        c   == CbcEnc(F1, ive, Pad0(M, 16))
        d   == CbcDec(G1, ivd, c)
    IN /\ Len(c) = AlignUp(p.n, 16) /\ Len(d) = Len(c)
       /\ (ivd = ive => Take(d, p.n) = M /\ AllZero(Drop(d, p.n)))                   \* D(E(m)) = m modulo the appended zeros
       /\ (ivd # ive /\ p.n > 0 => Take(d, 16) # Take(Pad0(M, 16), 16) /\ Drop(d, 16) = Drop(Pad0(M, 16), 16))   \* another IV garbles exactly the first block
CtrInverts == fam = "ctr" =>
    LET n0 == Nonce(p.nonce)
        c  == Ctr(F1, n0, M)
    IN /\ Len(c) = p.n /\ Ctr(F1, n0, c) = M
       /\ (16 * p.j <= p.n => Ctr(F1, IncN(n0, p.j), Drop(M, 16 * p.j)) = Drop(c, 16 * p.j))     \* key stream positioned by the block counter
XtsInverts == fam = "xts" =>
    LET t == Msg(16, 7)
        c == XtsEnc(F1, F2, t, M)
    IN /\ Len(c) = p.n /\ XtsDec(G1, F2, t, c) = M
       /\ (p.n >= 32 => Take(c, 16) = Take(XtsEnc(F1, F2, t, Take(M, 16 * (NB(M) - 1))), 16))    \* leading blocks do not depend on the tail
CcmInverts == fam = "ccm" =>
    LET nonce == Msg(p.nl, 8)
        aad   == Msg(p.al, 9)
        c     == CcmEnc(F1, nonce, M, aad, p.tl)
    IN /\ Len(c) = p.n + p.tl
       /\ CcmDec(F1, nonce, c, aad, p.tl) = [ok |-> TRUE, m |-> M]
       /\ ~CcmDec(F1, nonce, Flip(c, Len(c)), aad, p.tl).ok                        \* a forged tag is refused
       /\ (p.tl = 16 /\ p.n > 0 => ~CcmDec(F1, nonce, Flip(c, 1), aad, p.tl).ok)   \* forged ciphertext is refused
       /\ Len(CcmMacInput(nonce, M, aad, p.tl)) % 16 = 0
       /\ CcmB0(nonce, p.n, p.al, p.tl)[1] < 128
KwInverts == fam = "kw" =>
    LET c == Wrap(F1, M)
    IN /\ Len(c) = p.n + 8
       /\ Unwrap(G1, c) = [ok |-> TRUE, p |-> M]
       /\ Unwrap(G1, Flip(c, 1)) # [ok |-> TRUE, p |-> M]                        \* unwrapping is injective (that a forgery is REFUSED is
                                                                                 \* a property of the cipher, not of the construction: trace form)
CmacShape == fam = "cmac" => LET t == Cmac(F1, M) IN Len(t) = 16 /\ IsBytes(t)
HmacLaws == fam = "hmac" =>
    LET k == Msg(p.kl, 10)
        t == Hmac(ToyH, HB, k, M)
    IN /\ Len(t) = HL
       /\ (p.kl < HB => t = Hmac(ToyH, HB, k \o <<0>>, M))           \* short keys are zero-padded to the block
       /\ (p.kl > HB => t = Hmac(ToyH, HB, ToyH(k), M))              \* long keys are hashed first
HkdfLaws == fam = "hkdf" =>
    LET salt == Msg(p.sl, 11)
        ikm  == Msg(p.il, 12)
        info == Msg(p.fl, 13)
        okm  == Hkdf(ToyH, HB, HL, salt, ikm, info, p.L)
    IN /\ Len(okm) = p.L
       /\ Take(Hkdf(ToyH, HB, HL, salt, ikm, info, p.L + 5), p.L) = okm   \* output is a prefix of the T(1) || T(2) || ... stream
       /\ (p.sl = 0 => okm = Hkdf(ToyH, HB, HL, Zeros(HL), ikm, info, p.L))
Sb31Laws == fam = "sb31" =>
    LET c12 == LE(12, 666666)
        k   == Sb31Derive(F1, c12, p.rights, p.mode, p.bits)
    IN /\ Len(k) * 8 = p.bits
       /\ Len(Sb31Data(c12, p.rights, p.mode, p.bits, 1)) = 32
       /\ Take(k, 16) = Cmac(F1, Sb31Data(c12, p.rights, p.mode, p.bits, 1))
\* derivation-data layouts that the repository's own tests freeze (tests/sbfile/sb31/test_functions.py at the pinned commit)
ASSUME Sb31Golden ==
    /\ Sb31Data(LE(12, 15), 3, "blk", 256, 1) = <<15>> \o Zeros(19) \o <<192, 16, 0, 33, 0, 0, 1, 0, 0, 0, 0, 1>>
    /\ Sb31Data(LE(12, 15), 3, "blk", 256, 2) = <<15>> \o Zeros(19) \o <<192, 16, 0, 33, 0, 0, 1, 0, 0, 0, 0, 2>>
    /\ Sb31Data(<<124, 233, 192, 39>> \o Zeros(8), 3, "kdk", 256, 1) = <<124, 233, 192, 39>> \o Zeros(16) \o <<192, 1, 0, 33, 0, 0, 1, 0, 0, 0, 0, 1>>
KsLaws == fam = "ks" =>
    LET k == KsDerive(F1, p.which, Msg(16, 14))
    IN Len(k) = (IF p.which \in {"hmac", "otfad"} THEN 16 ELSE 32)
\* helpers
ASSUME BytesLaws ==
             /\ IncBE(Rep(255, 16)) = Zeros(16) /\ IncBE(Zeros(15) \o <<255>>) = Zeros(14) \o <<1, 0>>
             /\ DblBE(<<128>> \o Zeros(15)) = Zeros(15) \o <<135>> /\ DblBE(Zeros(15) \o <<1>>) = Zeros(15) \o <<2>>
             /\ DblLE(Zeros(15) \o <<128>>) = <<135>> \o Zeros(15) /\ DblLE(<<128>> \o Zeros(15)) = <<0, 1>> \o Zeros(14)
             /\ BE(4, 305419896) = <<18, 52, 86, 120>> /\ LE(4, 305419896) = <<120, 86, 52, 18>> /\ BE(8, 258) = Zeros(6) \o <<1, 2>>
             /\ G1(F1(Msg(16, 15))) = Msg(16, 15) /\ F1(G1(Msg(16, 16))) = Msg(16, 16)
=============================================================================
