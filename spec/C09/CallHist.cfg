CONSTANTS Deep = FALSE
INIT Init
NEXT Next
INVARIANT TypeOK
CHECK_DEADLOCK FALSE
