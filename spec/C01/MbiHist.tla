------------------------------ MODULE MbiHist ------------------------------
(* MC + GEN form of the history layer of C01 (Mbi.tla, "the object's history").                                  *)
(* The history itself is part of the state, so every distinct sequence of actions on one object is a distinct    *)
(* behaviour: TLC enumerates ALL sequences of up to Depth actions per composition, start and lane, checks the     *)
(* lemmas below on every state and prints every history for replay on the real builder (the harness closes       *)
(* each history with one more Export: depth 2 = all pairs = Export/change/Export and change/change/Export).       *)
(*    start "A" : small object  - no key store, no relocation table, TrustZone off (default where mandatory)     *)
(*          "B" : full object   - key store, relocation table, custom TrustZone preset (where the class has them)*)
(*    lane  "new"    : the object was built by the builder                                                       *)
(*          "parsed" : the object is the result of parsing the export of such an object (prefix Export, Parse)    *)
(*    H_DEPTH / H_DEPTH_P : number of actions per history in the two lanes (0 = lane off)                         *)
(*    H_MEMO = 1 : DESIGN VARIANT to be refuted - an object that works out its total length once and keeps it    *)
(*                 (TLC must report ExportNowDescribes violated; the harness demands exactly that)               *)
EXTENDS MbiInputs
VARIABLES start,  \* "A" | "B"
          lane,   \* "new" | "parsed"
          last,   \* settings at the last export (Mbi.tla)
          hist,   \* names of the actions so far (without the lane prefix)
          memo    \* H_MEMO only: the total length the object worked out at its first export
hvars == <<cls, x, start, lane, last, hist, memo>>

DepthOf(ln) == IF ln = "new" THEN atoi(IOEnv.H_DEPTH) ELSE atoi(IOEnv.H_DEPTH_P)
Lanes == {ln \in {"new", "parsed"} : DepthOf(ln) > 0}
MemoVariant == IOEnv.H_MEMO = "1"

\* ---- the two starts and the menu of a second configuration
TzOff == CASE TzMode = "none" -> "none" [] TzMode = "mand" -> "enabled" [] OTHER -> "disabled"
TzOn  == IF TzMode = "none" THEN "none" ELSE "custom"
TzMid == IF TzMode = "none" THEN "none" ELSE "enabled"
StartA == Mk(100, "plain", TzOff, FALSE, <<>>, 1)
StartB == Mk(1022, "plain", TzOn, Has("KeyStore"), IF Has("RelocTable") THEN <<32>> ELSE <<>>, 2)
ConfV  == Mk(68, "plain", TzMid, Has("KeyStore"), IF Has("RelocTable") THEN <<30, 37>> ELSE <<>>, 3)
StartOf(s) == IF s = "A" THEN StartA ELSE StartB

\* ---- the menu of actions (name -> action record); the names are what is printed and replayed
AppMenu == IF HmacF THEN {64, 100, 513, 1536} ELSE {57, 100, 513, 1536}
AppName(n) == CASE n = 57 -> "SetApp:57" [] n = 64 -> "SetApp:64" [] n = 100 -> "SetApp:100" [] n = 513 -> "SetApp:513" [] OTHER -> "SetApp:1536"
SetAppNames == {AppName(k) : k \in AppMenu}
Names == SetAppNames \cup {"Export", "SetTz:enabled", "SetTz:custom", "ClearTz", "SetKs", "ClearKs", "Reconfigure:A", "Reconfigure:B", "Reconfigure:V", "Parse"}
Act(n) == CASE n = "Export"        -> [ev |-> "Export"]
            [] n = "SetTz:enabled" -> [ev |-> "SetTz", tz |-> "enabled", tzLen |-> 0]
            [] n = "SetTz:custom"  -> [ev |-> "SetTz", tz |-> "custom", tzLen |-> 464]
            [] n = "ClearTz"       -> [ev |-> "ClearTz"]
            [] n = "SetKs"         -> [ev |-> "SetKs"]
            [] n = "ClearKs"       -> [ev |-> "ClearKs"]
            [] n = "Reconfigure:A" -> [ev |-> "Reconfigure", to |-> StartA]
            [] n = "Reconfigure:B" -> [ev |-> "Reconfigure", to |-> StartB]
            [] n = "Reconfigure:V" -> [ev |-> "Reconfigure", to |-> ConfV]
            [] n = "Parse"         -> [ev |-> "Parse"]
            [] OTHER               -> [ev |-> "SetApp", len |-> CHOOSE k \in AppMenu : AppName(k) = n, tail |-> "plain"]
\* generator-side restrictions (the R-spec's Offers is wider; these keep the histories inside what can be replayed and judged):
\*  - a second configuration WITHOUT a relocation table on an object that has one: whether `load_from_config` resets what the new
\*    configuration does not mention is settled neither by the property nor by the documentation - not generated, not asserted
\*  - Parse where the single-image lane already reports the parser (relocation table present, custom TrustZone preset in an HMAC
\*    image): the parsed object is unusable there and a history cannot continue through it
ReconfSettled(a) == a.ev = "Reconfigure" => (a.to.relocs = <<>> => x.relocs = <<>>)
ParseUsable(v) == v.relocs = <<>> /\ v.tail = "plain" /\ ~(HmacF /\ v.tz = "custom")
Usable(a) == ReconfSettled(a) /\ (a.ev = "Parse" => (last.k = "some" /\ ParseUsable(last.v)))

HInit == /\ cls \in {Classes[c] : c \in 1..Len(Classes)}
         /\ Modelled
         /\ start \in {"A", "B"} /\ lane \in Lanes
         /\ (lane = "parsed" => ParseUsable(StartOf(start)))
         /\ x = (IF lane = "new" THEN StartOf(start) ELSE Norm(StartOf(start)))
         /\ last = (IF lane = "new" THEN NoExport ELSE Exported(StartOf(start)))
         /\ hist = <<>>
         /\ memo = NoExport                          \* a parsed object is a new object as well: nothing worked out yet
         /\ PrintT(ToJson([c |-> cls.id, menu |-> [A |-> StartA, B |-> StartB, V |-> ConfV]]))
\* one action: guard from the R-spec (Offers), effect from the R-spec (After); every state (= history) is printed once
Do(n) == /\ Len(hist) < DepthOf(lane)
         /\ Offers(x, last, Act(n)) /\ Usable(Act(n))
         /\ x' = After(x, last, Act(n)) /\ last' = LastAfter(x, last, Act(n))
         /\ hist' = Append(hist, n)
         /\ memo' = (IF n = "Export" /\ memo.k = "none" THEN [k |-> "some", total |-> Ivt(x).total]
                     ELSE IF n = "Parse" THEN NoExport ELSE memo)
         /\ PrintT(ToJson([c |-> cls.id, s |-> start, lane |-> lane, h |-> hist']))
         /\ UNCHANGED <<cls, start, lane>>
DoExport == Do("Export")
DoSetApp == \E n \in SetAppNames : Do(n)
DoSetTz == Do("SetTz:enabled") \/ Do("SetTz:custom")
DoClearTz == Do("ClearTz")
DoSetKs == Do("SetKs")
DoClearKs == Do("ClearKs")
DoReconfigure == Do("Reconfigure:A") \/ Do("Reconfigure:B") \/ Do("Reconfigure:V")
DoParse == Do("Parse")
HNext == DoExport \/ DoSetApp \/ DoSetTz \/ DoClearTz \/ DoSetKs \/ DoClearKs \/ DoReconfigure \/ DoParse

\* ---- lemmas (checked on every state = after every history)
\* the settings an object can reach stay inside the asserted domain, and there the format keeps its promises (header describes, round trip)
HistoryClause == HistoryClauseOf(x)
\* an export taken NOW: the words a fresh object would write - or, in the design variant, the total length remembered from the first export
NowTotal == IF MemoVariant /\ memo.k = "some" THEN memo.total ELSE Ivt(x).total
ExportNowDescribes == NowTotal = (IF IvtKind = "ivt0" THEN 0 ELSE Sum(Final(x)))
\* Parse gives back an object whose export is the export that was parsed (ReExport along histories)
ParseRestores == ((hist # <<>> /\ hist[Len(hist)] = "Parse") \/ (lane = "parsed" /\ hist = <<>>)) => ExportOf(x) = ExportOf(last.v)
\* every part counts exactly once in the image length, whatever the step changed: so an export after a change of the application length
\* class / TrustZone block / key store / certificate block has another length word than anything worked out before (the histories can tell)
Parts(v) == App(v) + RelocLen(v) + TzLen(v) + (IF KsOn(v) THEN KSLEN ELSE 0) + v.certLen + v.sigLen + DigestLen(v)
LengthFollows == [][Sum(Final(x')) - Sum(Final(x)) = Parts(x') - Parts(x)]_hvars
=============================================================================
