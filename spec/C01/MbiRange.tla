------------------------------ MODULE MbiRange ------------------------------
(* MC + GEN form of the clause Carried (Mbi.tla "what a header field can hold").                                  *)
(* Case space: per composition of the device database, every numeric header field the composition has             *)
(* (image version, image sub-type, load address, firmware version) x every value class of a REQUEST for it        *)
(* (0, 1, top of the field, top + 1, too wide but still a 32-bit number, the largest 32-bit number, beyond 32     *)
(* bits) x example values of the class.  The other settings are those of one plain base input.                    *)
(* A builder has two answers to a request: refuse it, or carry it (possible only if the field holds it).  TLC     *)
(* checks that these two answers meet the clause for every case, that a field of n bits holds exactly the         *)
(* numbers that fit (FieldHolds) and that the classes do not overlap; every case is printed for replay on the     *)
(* real builder (both entry points).  With RANGE_CUT=1 a third answer is offered - the builder that keeps the     *)
(* low bits and emits - and TLC must REFUTE it (design variant; the harness demands the violation).               *)
EXTENDS MbiInputs
VARIABLES field, class, w, stage, out
vars == <<cls, x, field, class, w, stage, out>>

WithCut == IOEnv.RANGE_CUT = "1"
Base == Mk(100, "plain", IF TzMode = "none" THEN "none" ELSE "enabled", FALSE, <<>>, 1)
Candidates == {<<0, 0, 5>>, <<0, 0, 258>>, <<0, 1, 1>>, <<0, 1, 9029>>, <<0, 43981, 7>>,          \* too wide for a narrow field, a 32-bit number
               <<1, 0, 7>>, <<1, 2, 4096>>, <<32768, 0, 1>>}                                      \* beyond 32 bits
Examples(f, c) == CASE c = "zero" -> {WZero} [] c = "one" -> {<<0, 0, 1>>} [] c = "top" -> {Top(f)} [] c = "top1" -> {WSucc(Top(f))}
                    [] c = "word" -> {<<0, 65535, 65535>>} [] OTHER -> {v \in Candidates : InClass(f, c, v)}
NoOut == [built |-> FALSE, present |-> FALSE, emitted |-> WZero, parsed |-> WZero]

Init == /\ cls \in {Classes[c] : c \in 1..Len(Classes)}
        /\ Modelled
        /\ x = Base
        /\ field \in {f \in Fields : FieldOffered(f)}
        /\ class \in RangeClasses(field)
        /\ w \in Examples(field, class)
        /\ stage = "input" /\ out = NoOut
DoRequest == /\ stage = "input" /\ stage' = "asked"
             /\ PrintT(ToJson([c |-> cls.id, x |-> x, field |-> field, class |-> class, w |-> w]))
             /\ UNCHANGED <<cls, x, field, class, w, out>>
DoRefuse == /\ stage = "asked" /\ stage' = "refused" /\ out' = NoOut /\ UNCHANGED <<cls, x, field, class, w>>
DoCarry  == /\ stage = "asked" /\ Fits(field, w) /\ stage' = "carried"
            /\ out' = [built |-> TRUE, present |-> w # WZero, emitted |-> w, parsed |-> w]
            /\ UNCHANGED <<cls, x, field, class, w>>
DoCut    == /\ WithCut /\ stage = "asked" /\ stage' = "cut"
            /\ out' = [built |-> TRUE, present |-> TRUE, emitted |-> Cut(field, w), parsed |-> Cut(field, w)]
            /\ UNCHANGED <<cls, x, field, class, w>>
Next == DoRequest \/ DoRefuse \/ DoCarry \/ DoCut

BaseInDomain  == InDomain(x)
CarriedHolds  == stage \in {"refused", "carried", "cut"} => Carried(field, w, out)
FieldHolds    == (Fits(field, w) <=> Cut(field, w) = w) /\ IsWide(w)
ClassesApart  == \A c2 \in RangeClasses(field) : InClass(field, c2, w) <=> c2 = class
OnlyFitsCarried == stage = "carried" => Fits(field, w)
=============================================================================
