------------------------------ MODULE MbiInputs ------------------------------
(* The case space of C01, shared by MbiMC (one image per case) and MbiHist (histories of one object).           *)
(* The compositions come from the device database (CLASS_FILE, written at run time), the certificate-block      *)
(* kinds from the key pool (KINDS_FILE: lengths computed from the DER / PEM files).  Mk builds one abstract      *)
(* input of the composition held in `cls`.                                                                       *)
EXTENDS Mbi, Json, IOUtils
Classes == ndJsonDeserialize(IOEnv.CLASS_FILE)        \* <<[id, type, mixins], ...>>
Kinds   == ndJsonDeserialize(IOEnv.KINDS_FILE)        \* <<[name, ver, certLen, sigLen, iskLen], ...>>
Full    == IOEnv.GEN_FULL = "1"
KindsOf(ver) == SelectSeq(Kinds, LAMBDA k : k.ver = ver)
NoKind == [name |-> "none", ver |-> "none", certLen |-> 0, sigLen |-> 0, iskLen |-> 0]
AppLens == LET all == IF Full THEN {56, 57, 58, 59, 60, 63, 64, 65, 68, 72, 76, 80, 100, 511, 512, 513, 1000, 1024, 1536, 4099}
                      ELSE {56, 57, 60, 64, 68, 100, 512, 1022, 1536}
           IN IF HmacF THEN {n \in all : n >= 64} ELSE all
TzKinds == CASE TzMode = "none" -> {"none"} [] TzMode = "mand" -> {"enabled", "custom"} [] OTHER -> {"disabled", "enabled", "custom"}
Tails   == IF Has("RelocTable") \/ Full THEN {"plain", "marker"} ELSE {"plain"}
KsSet   == IF Has("KeyStore") THEN BOOLEAN ELSE {FALSE}
Relocs  == IF Has("RelocTable") THEN {<<>>, <<32>>, <<30, 37>>} ELSE {<<>>}
NVar    == IF Full THEN 8 ELSE 4
\* the independent word-level settings travel together on one variant index (each value of each setting occurs)
VerMenu  == <<0, 1, 32769, 65535, 7, 0, 256, 4660>>
FwMenu   == <<0, 1, 2147483647, 3, 65536, 0, 7, 255>>
LoadMenu == << <<0, 0>>, <<8192, 4096>>, <<32768, 0>>, <<65535, 65532>>, <<4096, 0>>, <<0, 1024>>, <<12288, 256>>, <<1, 0>> >>
DigMenu  == <<"none", "sha256", "add", "sha384", "sha512", "none", "add", "sha256">>
DigestBytes(opt, k) == CASE opt = "sha256" -> 32 [] opt = "sha384" -> 48 [] opt = "sha512" -> 64 [] opt = "add" -> k.sigLen \div 2 [] OTHER -> 0
Mk(a, t, z, ks, r, i) ==
  LET ks_ == KindsOf(Cert)
      k == IF Cert = "none" THEN NoKind ELSE ks_[(i % Len(ks_)) + 1]
      dopt == IF Manifest = "digest" THEN DigMenu[i + 1] ELSE "none"
  IN [appLen |-> a, tail |-> t, tz |-> z, tzLen |-> IF z = "custom" THEN 464 ELSE 0,
      hwKey |-> Has("HwKey") /\ i % 2 = 1, ks |-> ks, relocs |-> r,
      kind |-> k.name, certLen |-> k.certLen, sigLen |-> k.sigLen, iskLen |-> k.iskLen,
      imgVer |-> IF Has("ImageVersion") THEN VerMenu[i + 1] ELSE 0,
      sub |-> IF Has("ImageSubType") THEN (i \div 2) % 2 ELSE 0,
      fwVer |-> IF Manifest # "none" THEN FwMenu[i + 1] ELSE 0,
      digestOpt |-> dopt, digest |-> DigestBytes(dopt, k),
      load |-> IF HasLoad THEN LoadMenu[i + 1] ELSE <<0, 0>>]
Inputs == {Mk(a, t, z, ks, r, i) : a \in AppLens, t \in Tails, z \in TzKinds, ks \in KsSet, r \in Relocs, i \in 0..(NVar - 1)}
=============================================================================
