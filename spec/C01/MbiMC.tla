------------------------------- MODULE MbiMC -------------------------------
(* MC + GEN form of C01.  The compositions come from the device database (CLASS_FILE, written at run time), the *)
(* certificate-block kinds from the key pool (KINDS_FILE: lengths computed from the DER / PEM files).           *)
(* TLC enumerates, per composition, the abstract input classes, checks the region algebra (the format as        *)
(* designed is self-consistent: header describes the regions, the reader's cuts recover the payload, building   *)
(* again from what was read gives the same regions) and prints every case for replay on the real builder.       *)
EXTENDS MbiInputs
VARIABLES stage, img, ivt, back, again
vars == <<cls, x, stage, img, ivt, back, again>>

None == [k |-> "none"]
Init == /\ cls \in {Classes[c] : c \in 1..Len(Classes)}
        /\ Modelled
        /\ x \in Inputs
        /\ stage = "input" /\ img = <<>> /\ ivt = None /\ back = None /\ again = None
\* what a reader recovers, as an abstract input again (lengths it reads from self-declaring fields stay as they are)
Recovered == LET b == Read(img, ivt, x) IN
  [x EXCEPT !.appLen = Sum(b.app),
            !.tz = IF TzMode = "none" THEN "none" ELSE CASE ivt.tz = 0 -> "enabled" [] ivt.tz = 1 -> "custom" [] OTHER -> "disabled",
            !.hwKey = ivt.hwKey, !.ks = ivt.ks,
            !.relocs = IF ivt.reloc THEN x.relocs ELSE <<>>,
            !.imgVer = IF ivt.hasVer THEN ivt.ver ELSE 0, !.sub = ivt.sub, !.load = ivt.load]
DoExport == /\ stage = "input" /\ stage' = "exported" /\ img' = Final(x) /\ ivt' = Ivt(x)
            /\ PrintT(ToJson([c |-> cls.id, x |-> x]))
            /\ UNCHANGED <<cls, x, back, again>>
DoParse == /\ stage = "exported" /\ stage' = "parsed" /\ back' = Recovered /\ UNCHANGED <<cls, x, img, ivt, again>>
DoReExport == /\ stage = "parsed" /\ stage' = "reexported" /\ again' = [img |-> Final(back), ivt |-> Ivt(back)]
              /\ UNCHANGED <<cls, x, img, ivt, back>>
Next == DoExport \/ DoParse \/ DoReExport

\* ---- lemmas about the format
InputsInDomain  == InDomain(x)
HeaderDescribes == stage # "input" => HeaderDescribesOf(x)
RoundTrip       == stage # "input" => RoundTripOf(x)
ReadsBack       == stage \in {"parsed", "reexported"} =>
                     /\ back.appLen = App(x) /\ back.tz = x.tz /\ back.hwKey = x.hwKey /\ back.ks = x.ks /\ back.relocs = x.relocs
                     /\ back.imgVer = x.imgVer /\ back.sub = x.sub /\ back.load = x.load
ReExport        == stage = "reexported" => again.img = img /\ again.ivt = ivt
VolatileIsSigned == stage # "input" => \A d \in SigRange(x) \cup IskRange(x) : d[1] < d[2] /\ d[2] <= Sum(img)
=============================================================================
