INIT HInit
NEXT HNext
INVARIANT HistoryClause
INVARIANT ExportNowDescribes
INVARIANT ParseRestores
PROPERTY LengthFollows
CHECK_DEADLOCK FALSE
