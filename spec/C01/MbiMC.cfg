INIT Init
NEXT Next
INVARIANT InputsInDomain
INVARIANT HeaderDescribes
INVARIANT RoundTrip
INVARIANT ReadsBack
INVARIANT ReExport
INVARIANT VolatileIsSigned
CHECK_DEADLOCK FALSE
