-------------------------------- MODULE Mbi --------------------------------
(* C01 - R-spec of the Master Boot Image FORMAT (what the boot ROM reads; nothing of SPSDK's code).            *)
(*                                                                                                            *)
(* An image is a sequence of regions [n |-> name, len |-> bytes]; the four ROM-owned words of the vector      *)
(* table (0x20 total length, 0x24 type+flags, 0x28 CRC / certificate block offset, 0x34 load address) are a   *)
(* record.  Both are functions of                                                                             *)
(*    cls : the composition  [id, type, mixins]  exactly as named in the device database                      *)
(*          (features.mbi.mbi_classes - read at run time; the MEANING of every mixin name is defined here)    *)
(*    v   : the abstract input                                                                                *)
(*          [appLen, tail, tz, tzLen, hwKey, ks, relocs, certLen, sigLen, iskLen, imgVer, sub, fwVer,         *)
(*           digest, load]                                                                                    *)
(* Clauses (used as invariants by MbiMC and as step guards by MbiTrace):                                      *)
(*    HeaderDescribes  the four words describe the regions actually emitted                                   *)
(*    RoundTrip        the cuts a reader can derive from the four words (plus the self-declared lengths of    *)
(*                     certificate block / signature / manifest / relocation table) recover exactly the       *)
(*                     application payload and every setting                                                  *)
(*    ReExport         building again from what was recovered gives the same regions; bytes may differ only   *)
(*                     inside signature fields (and fields computed over a signature)                         *)
(*    History          (last section) a builder object has a history - exported, changed, configured again,  *)
(*                     parsed: EVERY export of a history is the export of a fresh object with the settings    *)
(*                     of that moment (Offers / After / HistoryClauseOf; MC + GEN in MbiHist, TV in MbiTrace)  *)
(*    Carried          (section "what a header field can hold") a requested number is either refused or the    *)
(*                     field of the emitted header IS that number: never accepted and altered                  *)
(*                     (MC + GEN in MbiRange, TV in MbiTrace)                                                  *)
EXTENDS Naturals, Integers, Sequences, FiniteSets, TLC

VARIABLES cls, x

HMACLEN == 32   KSLEN == 1424   IVTLEN == 64   ENCIVT == 56   IVLEN == 16   MANHDR == 20   RELHDR == 16   RELENT == 16
RomWords == {32, 36, 40, 52}                   \* offsets of the four ROM-owned words
Pad4(n) == ((n + 3) \div 4) * 4
R(n, l) == [n |-> n, len |-> l]
RECURSIVE Sum(_)
Sum(s) == IF s = <<>> THEN 0 ELSE Head(s).len + Sum(Tail(s))
RECURSIVE SumInts(_)
SumInts(s) == IF s = <<>> THEN 0 ELSE Head(s) + SumInts(Tail(s))
NonEmpty(s) == SelectSeq(s, LAMBDA r : r.len > 0)
HasReg(s, name) == \E i \in 1..Len(s) : s[i].n = name
LenOf(s, name) == Sum(SelectSeq(s, LAMBDA r : r.n = name))
RECURSIVE OffsetOf(_, _)
OffsetOf(s, name) == IF s = <<>> THEN 0 ELSE IF Head(s).n = name THEN 0 ELSE Head(s).len + OffsetOf(Tail(s), name)
At(s, name) == IF HasReg(s, name) THEN OffsetOf(s, name) ELSE -1
\* split-aware cutting of region sequences
RECURSIVE TakeR(_, _)
TakeR(s, n) == IF n <= 0 \/ s = <<>> THEN <<>>
               ELSE IF Head(s).len <= n THEN <<Head(s)>> \o TakeR(Tail(s), n - Head(s).len) ELSE <<R(Head(s).n, n)>>
RECURSIVE DropR(_, _)
DropR(s, n) == IF n <= 0 \/ s = <<>> THEN s
               ELSE IF Head(s).len <= n THEN DropR(Tail(s), n - Head(s).len) ELSE <<R(Head(s).n, Head(s).len - n)>> \o Tail(s)
SliceR(s, a, b) == TakeR(DropR(s, a), b - a)
InsertAt(s, pos, extra) == TakeR(s, pos) \o extra \o DropR(s, pos)
Merge(s) ==    \* re-join neighbours of the same name
  LET F[i \in 0..Len(s)] == IF i = 0 THEN <<>> ELSE
        IF F[i-1] # <<>> /\ F[i-1][Len(F[i-1])].n = s[i].n
        THEN [F[i-1] EXCEPT ![Len(F[i-1])].len = @ + s[i].len] ELSE Append(F[i-1], s[i])
  IN F[Len(s)]

\* ------------------------------------------------------------------ what each mixin name means for the format
Has(m) == \E i \in 1..Len(cls.mixins) : cls.mixins[i] = m
IvtKind  == IF Has("Ivt") THEN "ivt" ELSE IF Has("IvtZeroTotalLength") THEN "ivt0" ELSE "none"
Manifest == IF Has("ManifestCrc") THEN "crc" ELSE IF Has("ManifestDigest") THEN "digest" ELSE "none"
TzMode   == IF Manifest # "none" \/ Has("TrustZoneMandatory") THEN "mand" ELSE IF Has("TrustZone") THEN "opt" ELSE "none"
Cert     == IF Has("CertBlockV1") THEN "v1" ELSE IF Has("CertBlockV21") THEN "v21" ELSE "none"
Layout   == CASE Has("ExportAppTrustZoneCertBlockEncrypt") -> "enc"
              [] Has("ExportAppTrustZoneCertBlock") -> "v1"
              [] Has("ExportAppCertBlockManifest") -> "v21"
              [] Has("ExportAppTrustZone") -> "apptz"
              [] Has("ExportApp") -> "app"
              [] OTHER -> "unknown"
Sign     == CASE Has("ExportRsaSign") -> "rsa" [] Has("ExportEccSign") -> "ecc" [] Has("ExportCrcSign") -> "crc" [] OTHER -> "none"
HmacF    == Has("ExportHmacKeyStoreFinalize")
HasLoad  == Has("LoadAddress") \/ Has("LoadAddressOptional")
KnownMixins == {"App", "Ivt", "IvtZeroTotalLength", "LoadAddress", "LoadAddressOptional", "TrustZone", "TrustZoneMandatory", "ImageSubType",
                "ImageVersion", "FwVersion", "HwKey", "KeyStore", "HmacMandatory", "CtrInitVector", "RelocTable", "CertBlockV1", "CertBlockV21",
                "ManifestCrc", "ManifestDigest", "ExportApp", "ExportAppTrustZone", "ExportAppTrustZoneCertBlock", "ExportAppCertBlockManifest",
                "ExportAppTrustZoneCertBlockEncrypt", "ExportCrcSign", "ExportRsaSign", "ExportEccSign", "ExportHmacKeyStoreFinalize"}
\* the compositions this algebra covers (anything else is reported as "not modelled", never judged)
Modelled == /\ \A i \in 1..Len(cls.mixins) : cls.mixins[i] \in KnownMixins
            /\ Has("App") /\ IvtKind # "none" /\ Layout # "unknown"
            /\ (Layout = "app" => TzMode = "none" /\ Cert = "none")
            /\ (Layout = "apptz" => TzMode # "none" /\ Cert = "none" /\ Manifest = "none")
            /\ (Layout = "v1" => Cert = "v1" /\ Sign = "rsa" /\ TzMode # "none" /\ Manifest = "none")
            /\ (Layout = "enc" => Cert = "v1" /\ Sign = "rsa" /\ TzMode # "none" /\ HmacF /\ Has("CtrInitVector"))
            /\ (Layout = "v21" => Cert = "v21" /\ Sign = "ecc" /\ Manifest # "none")
            /\ (Cert = "none" => Sign \in {"none", "crc"})
            /\ (HmacF <=> Has("HmacMandatory")) /\ (Has("KeyStore") => HmacF) /\ (HmacF => Cert = "v1")
            /\ (Sign = "crc" <=> cls.type \in {2, 5}) /\ (Sign = "none" <=> cls.type = 0)

\* ------------------------------------------------------------------ the asserted input domain
InDomain(v) ==
  /\ v.appLen >= 56
  /\ (HmacF => v.appLen >= 64)          \* 0x38..0x3F with an HMAC: the HMAC (fixed at offset 64) falls behind the payload - format corner, not asserted
  /\ v.tz \in (CASE TzMode = "none" -> {"none"} [] TzMode = "mand" -> {"enabled", "custom"} [] OTHER -> {"disabled", "enabled", "custom"})
  /\ (v.tz = "custom" => v.tzLen > 0)
  /\ (~Has("RelocTable") => v.relocs = <<>>) /\ (~Has("KeyStore") => ~v.ks) /\ (~Has("HwKey") => ~v.hwKey)
  /\ (Cert = "none" <=> v.certLen = 0) /\ (Sign \in {"rsa", "ecc"} <=> v.sigLen > 0)
  /\ v.imgVer \in 0..65535 /\ v.sub \in 0..3

\* ------------------------------------------------------------------ regions
App(v)      == Pad4(v.appLen)
RelocImgs(v) == SumInts([i \in 1..Len(v.relocs) |-> Pad4(v.relocs[i])])
RelocLen(v) == IF v.relocs = <<>> THEN 0 ELSE RelocImgs(v) + RELENT * Len(v.relocs) + RELHDR
TzLen(v)    == IF v.tz = "custom" THEN v.tzLen ELSE 0
DigestLen(v) == IF Manifest = "digest" THEN v.digest ELSE 0
Body(v) == NonEmpty(
  CASE Layout = "app"   -> <<R("app", App(v)), R("reloc", RelocLen(v))>>
    [] Layout = "apptz" -> <<R("app", App(v)), R("reloc", RelocLen(v)), R("tz", TzLen(v))>>
    [] Layout = "v1"    -> <<R("app", App(v)), R("reloc", RelocLen(v)), R("cert", v.certLen), R("tz", TzLen(v)), R("sig", v.sigLen)>>
    [] Layout = "v21"   -> <<R("app", App(v)), R("cert", v.certLen), R("manhdr", MANHDR), R("tz", TzLen(v)),
                             R("mancrc", IF Manifest = "crc" THEN 4 ELSE 0), R("sig", v.sigLen), R("digest", DigestLen(v))>>
    [] Layout = "enc"   -> \* plain vector table words over the encrypted first 64 bytes, encrypted rest, certificate block,
                           \* copy of the first 56 encrypted bytes, counter IV, encrypted TrustZone block, signature
                           <<R("app", IVTLEN), R("app", App(v) - IVTLEN), R("reloc", RelocLen(v)), R("cert", v.certLen),
                             R("appcopy", ENCIVT), R("iv", IVLEN), R("tz", TzLen(v)), R("sig", v.sigLen)>>
    [] OTHER -> <<>>)
KsOn(v) == Has("KeyStore") /\ v.ks
Final(v) == IF HmacF THEN InsertAt(Body(v), IVTLEN, NonEmpty(<<R("hmac", HMACLEN), R("ks", IF KsOn(v) THEN KSLEN ELSE 0)>>)) ELSE Body(v)
Shift(v) == IF HmacF THEN HMACLEN + (IF KsOn(v) THEN KSLEN ELSE 0) ELSE 0      \* displacement rule of the load-to-RAM format

\* ------------------------------------------------------------------ the four words
Ivt(v) == [
  total  |-> IF IvtKind = "ivt0" THEN 0 ELSE Sum(Final(v)),
  type   |-> cls.type,
  tz     |-> IF TzMode = "none" THEN 0 ELSE CASE v.tz = "enabled" -> 0 [] v.tz = "custom" -> 1 [] OTHER -> 2,
  sub    |-> IF Has("ImageSubType") THEN v.sub ELSE 0,
  hwKey  |-> Has("HwKey") /\ v.hwKey,
  ks     |-> KsOn(v),
  reloc  |-> Has("RelocTable") /\ v.relocs # <<>>,
  hasVer |-> Has("ImageVersion") /\ v.imgVer # 0,
  ver    |-> IF Has("ImageVersion") THEN v.imgVer ELSE 0,
  w28    |-> IF cls.type = 0 THEN "zero" ELSE IF Sign = "crc" THEN "crc" ELSE IF Cert # "none" THEN "off" ELSE "zero",
  off    |-> IF Cert # "none" /\ cls.type # 0 THEN App(v) + RelocLen(v) ELSE 0,
  load   |-> IF HasLoad THEN v.load ELSE <<0, 0>> ]

\* positions of things an observer can look for in the emitted bytes (-1: not present / not visible)
Visible(v) == Layout # "enc"
Where(v) == [
  tz      |-> IF TzLen(v) > 0 /\ Visible(v) THEN OffsetOf(Final(v), "tz") ELSE -1,
  ks      |-> IF KsOn(v) THEN OffsetOf(Final(v), "ks") ELSE -1,
  iv      |-> IF Layout = "enc" THEN OffsetOf(Final(v), "iv") ELSE -1,
  relhdr  |-> IF v.relocs # <<>> /\ Visible(v) THEN OffsetOf(Final(v), "reloc") + RelocLen(v) - RELHDR ELSE -1,
  apptail |-> IF App(v) >= 80 /\ Visible(v) THEN IVTLEN + Shift(v) ELSE -1 ]

\* ------------------------------------------------------------------ the reader's side: cuts derived from the words
\* i = the header record, s = the emitted regions; certLen / sigLen / tzLen / digest / table entries are self-declared by the bytes
UnFinal(s, i) == IF HmacF THEN TakeR(s, IVTLEN) \o DropR(s, IVTLEN + HMACLEN + (IF i.ks THEN KSLEN ELSE 0)) ELSE s
UnDigest(s, v) == IF DigestLen(v) > 0 THEN TakeR(s, Sum(s) - DigestLen(v)) ELSE s
UnSign(s, v) == IF Sign \in {"rsa", "ecc"} THEN TakeR(s, Sum(s) - v.sigLen) ELSE s
UnPost(s, i, v) == IF Layout # "enc" THEN s ELSE
  LET c == i.off  e == i.off + v.certLen
  IN SliceR(s, e, e + ENCIVT) \o SliceR(s, ENCIVT, c) \o DropR(s, e + ENCIVT + IVLEN)
CutTail(s, i, v) ==    \* the payload part and the TrustZone part
  LET t == IF i.tz = 1 THEN v.tzLen ELSE 0 IN
  CASE Layout \in {"app", "apptz", "enc"} -> [pay |-> TakeR(s, Sum(s) - t), tz |-> DropR(s, Sum(s) - t)]
    [] Layout = "v1"  -> [pay |-> TakeR(s, i.off), tz |-> SliceR(s, i.off + v.certLen, i.off + v.certLen + t)]
    [] Layout = "v21" -> [pay |-> TakeR(s, i.off), tz |-> SliceR(s, i.off + v.certLen + MANHDR, i.off + v.certLen + MANHDR + t)]
CutTable(p, i, v) == IF i.reloc THEN TakeR(p, Sum(p) - RelocLen(v)) ELSE p     \* the table declares its own entries and image sizes
Read(s, i, v) ==
  LET c == CutTail(UnPost(UnSign(UnDigest(UnFinal(s, i), v), v), i, v), i, v)
  IN [app |-> Merge(CutTable(c.pay, i, v)), table |-> Merge(DropR(c.pay, Sum(CutTable(c.pay, i, v)))), tz |-> Merge(c.tz)]
AppNames == {"app", "appcopy"}
RoundTripOf(v) ==
  LET b == Read(Final(v), Ivt(v), v) IN
  /\ \A k \in 1..Len(b.app) : b.app[k].n \in AppNames
  /\ Sum(b.app) = App(v)
  /\ (v.relocs # <<>> => b.table = <<R("reloc", RelocLen(v))>>) /\ (v.relocs = <<>> => b.table = <<>>)
  /\ (TzLen(v) > 0 => b.tz = <<R("tz", TzLen(v))>>) /\ (TzLen(v) = 0 => b.tz = <<>>)
HeaderDescribesOf(v) ==
  LET s == Final(v)  i == Ivt(v) IN
  /\ (IvtKind = "ivt" => i.total = Sum(s)) /\ (IvtKind = "ivt0" => i.total = 0)
  /\ (i.w28 = "off" => At(s, "cert") = i.off + Shift(v))               \* the offset word (with the displacement rule) lands on the certificate block
  /\ (HmacF => At(s, "hmac") = IVTLEN /\ TakeR(s, IVTLEN) = <<R("app", IVTLEN)>>)
  /\ (i.ks <=> HasReg(s, "ks")) /\ (i.ks => At(s, "ks") = IVTLEN + HMACLEN)
  /\ (i.reloc <=> HasReg(s, "reloc")) /\ (i.tz = 1 <=> HasReg(s, "tz"))
  /\ (Sign \in {"rsa", "ecc"} => LET last == s[Len(s)] IN last.n = "sig" \/ (last.n = "digest" /\ s[Len(s) - 1].n = "sig"))
  /\ \A k \in 1..Len(s) : Sum(SubSeq(s, 1, k)) % 4 = 0                   \* every region ends on a word boundary

\* fields whose bytes may legitimately differ between two builds with the same keys: signatures and what is computed over one
SigRange(v) == IF HasReg(Final(v), "sig") THEN {<<OffsetOf(Final(v), "sig"), OffsetOf(Final(v), "sig") + v.sigLen>>} ELSE {}
IskRange(v) == IF v.iskLen > 0 THEN LET e == OffsetOf(Final(v), "cert") + v.certLen IN
                 {<<e - v.iskLen, e>>}
                 \cup (IF HasReg(Final(v), "mancrc") THEN {<<OffsetOf(Final(v), "mancrc"), OffsetOf(Final(v), "mancrc") + 4>>} ELSE {})
                 \cup (IF HasReg(Final(v), "digest") THEN {<<OffsetOf(Final(v), "digest"), OffsetOf(Final(v), "digest") + DigestLen(v)>>} ELSE {})
               ELSE {}
Inside(d, ranges) == \A b \in d[1]..(d[2] - 1) : \E r \in ranges : r[1] <= b /\ b < r[2]     \* byte-wise: neighbouring fields may merge into one observed range

\* ------------------------------------------------------------------ the object's history
(* A builder object outlives one export: it is exported, changed and exported again, configured a second time,   *)
(* or it is itself the result of parsing an earlier export.  The abstract state of one object is                 *)
(*     x    : the settings it holds NOW (the same record as the abstract input)                                  *)
(*     last : [k |-> "some", v |-> the settings it held at its last export]   (NoExport before the first one)    *)
(* An action is a record [ev |-> name, ...]:                                                                     *)
(*     Export                      the object is serialised (its settings stay)                                  *)
(*     SetApp(len, tail)           the application is replaced by one of another length class                    *)
(*     SetTz(tz, tzLen) / ClearTz  TrustZone default / custom preset / disabled (where the composition has it)   *)
(*     SetKs / ClearKs             key store supplied / removed (where the composition has one)                  *)
(*     Reconfigure(to)             the same object is configured again with another option set of its class      *)
(*     Parse                       the object is replaced by what a reader recovers from its last export         *)
(* What the format says about a history is ONE clause (HistoryClause in MbiHist, the T-actions of MbiTrace):     *)
(*     EVERY export of a history is the export of a FRESH object holding the current settings                    *)
(* - the regions are Final(x), the four words are Ivt(x), the reader's cuts recover x - whatever was exported,   *)
(* read or changed before.  Nothing an object worked out for an earlier export may survive a change.             *)
NoExport == [k |-> "none"]
Exported(v) == [k |-> "some", v |-> v]
Norm(v) == [v EXCEPT !.appLen = App(v)]          \* what a reader gives back: the payload padded to a word, every setting as it was
Offers(v, lst, a) ==
  CASE a.ev = "Export"      -> TRUE
    [] a.ev = "SetApp"      -> a.len >= 56 /\ (HmacF => a.len >= 64) /\ a.len # v.appLen /\ a.tail \in {"plain", "marker"}
    [] a.ev = "SetTz"       -> /\ TzMode # "none" /\ a.tz \in {"enabled", "custom"}
                               /\ (a.tz = "custom" <=> a.tzLen > 0) /\ (a.tz = "enabled" => v.tz # "enabled")
    [] a.ev = "ClearTz"     -> TzMode = "opt" /\ v.tz # "disabled"
    [] a.ev = "SetKs"       -> Has("KeyStore") /\ ~v.ks
    [] a.ev = "ClearKs"     -> Has("KeyStore") /\ v.ks
    [] a.ev = "Reconfigure" -> InDomain(a.to) /\ a.to # v
    [] a.ev = "Parse"       -> lst.k = "some"
    [] OTHER -> FALSE
After(v, lst, a) ==
  CASE a.ev = "SetApp"      -> [v EXCEPT !.appLen = a.len, !.tail = a.tail]
    [] a.ev = "SetTz"       -> [v EXCEPT !.tz = a.tz, !.tzLen = a.tzLen]
    [] a.ev = "ClearTz"     -> [v EXCEPT !.tz = "disabled", !.tzLen = 0]
    [] a.ev = "SetKs"       -> [v EXCEPT !.ks = TRUE]
    [] a.ev = "ClearKs"     -> [v EXCEPT !.ks = FALSE]
    [] a.ev = "Reconfigure" -> a.to
    [] a.ev = "Parse"       -> Norm(lst.v)
    [] OTHER -> v                                  \* Export
LastAfter(v, lst, a) == IF a.ev = "Export" THEN Exported(v) ELSE lst
\* what an export of an object holding v must be, and the clause every export of every history has to meet
ExportOf(v) == [img |-> Final(v), ivt |-> Ivt(v)]
HistoryClauseOf(v) == InDomain(v) /\ HeaderDescribesOf(v) /\ RoundTripOf(v)
\* actions that change how long the image is (the length word and every offset behind the change must follow)
ChangesLength(v, lst, a) == Sum(Final(After(v, lst, a))) # Sum(Final(v))

\* ------------------------------------------------------------------ what a header field can hold
(* Every numeric setting travels in a field of FIXED width: image version 16 bits (upper half of the type/flags   *)
(* word, plus the "version present" flag), image sub-type 2 bits of the same word, load address the 32-bit word   *)
(* at 0x34, firmware version a 32-bit word of the image manifest.  A caller may REQUEST any natural number.       *)
(* Requested numbers are wide values  <<l2, l1, l0>> = l2 * 2^32 + l1 * 2^16 + l0  (TLC integers have 32 bits).    *)
(* The clause (Carried): a request is either REFUSED - nothing is built - or the field read from the emitted      *)
(* bytes is the requested number and a reader gives the requested number back.  A field of n bits holds exactly    *)
(* the numbers below 2^n (FieldHolds, checked in MbiRange), so a request that does not fit can only be refused:   *)
(* accepted-and-altered (cut to the width, spilled into the neighbouring fields) is the violation.                *)
Fields == {"imgVer", "sub", "load", "fwVer"}
Width(f) == CASE f = "sub" -> 2 [] f = "imgVer" -> 16 [] OTHER -> 32
FieldOffered(f) == CASE f = "imgVer" -> Has("ImageVersion") [] f = "sub" -> Has("ImageSubType") [] f = "load" -> HasLoad
                     [] f = "fwVer" -> Manifest # "none" [] OTHER -> FALSE
WZero == <<0, 0, 0>>
IsWide(w) == Len(w) = 3 /\ \A k \in 1..3 : w[k] \in 0..65535
WLess(a, b) == \/ a[1] < b[1] \/ (a[1] = b[1] /\ a[2] < b[2]) \/ (a[1] = b[1] /\ a[2] = b[2] /\ a[3] < b[3])
Top(f) == CASE Width(f) = 2 -> <<0, 0, 3>> [] Width(f) = 16 -> <<0, 0, 65535>> [] OTHER -> <<0, 65535, 65535>>
Fits(f, w) == ~WLess(Top(f), w)
\* all a field of that width can do with a number: keep its low bits
Cut(f, w) == CASE Width(f) = 2 -> <<0, 0, w[3] % 4>> [] Width(f) = 16 -> <<0, 0, w[3]>> [] OTHER -> <<0, w[2], w[3]>>
WSucc(w) == IF w[3] < 65535 THEN <<w[1], w[2], w[3] + 1>> ELSE IF w[2] < 65535 THEN <<w[1], w[2] + 1, 0>> ELSE <<w[1] + 1, 0, 0>>
\* value classes of a request (the case space of MbiRange; a logged request must lie in the class it claims)
RangeClasses(f) == {"zero", "one", "top", "top1", "beyond"} \cup (IF Width(f) < 32 THEN {"alias", "word"} ELSE {})
InClass(f, c, w) == IsWide(w) /\
  CASE c = "zero"   -> w = WZero
    [] c = "one"    -> w = <<0, 0, 1>>
    [] c = "top"    -> w = Top(f)
    [] c = "top1"   -> w = WSucc(Top(f))                                          \* the first number the field cannot hold
    [] c = "alias"  -> ~Fits(f, w) /\ w[1] = 0 /\ w # WSucc(Top(f)) /\ Cut(f, w) # WZero /\ w # <<0, 65535, 65535>>
                                                                                   \* too wide, still a 32-bit number; cut to the width it is another valid value
    [] c = "word"   -> w = <<0, 65535, 65535>>                                    \* the largest number a 32-bit word carries
    [] c = "beyond" -> w[1] > 0 /\ w # WSucc(Top(f))                              \* no 32-bit word carries it
    [] OTHER -> FALSE
\* the outcome of a request: o = [built, present, emitted, parsed]  (emitted: the field read from the bytes; present: the
\* "version present" flag where the field has one; parsed: what a reader gives back)
Carried(f, w, o) == o.built => /\ Fits(f, w)
                               /\ o.emitted = w /\ o.parsed = w
                               /\ (f = "imgVer" => o.present = (w # WZero))
=============================================================================
