INIT Init
NEXT Next
INVARIANT BaseInDomain
INVARIANT CarriedHolds
INVARIANT FieldHolds
INVARIANT ClassesApart
INVARIANT OnlyFitsCarried
CHECK_DEADLOCK FALSE
