------------------------------ MODULE MbiTrace ------------------------------
(* TV form of C01.  One trace = one real image built by SPSDK for one (composition, abstract input).            *)
(*   header trace : Build, ExpLen, ExpFlags, ExpW28, ExpLoad, ExpLayout [, ExpReloc] [, ExpManifest]  (HeaderDescribes) *)
(*   parse trace  : Build, ParseOk, ParseApp, ParseTz, ParseWords, ParseKs, ParseReloc, ParseMisc   (RoundTrip) *)
(*                  ReObj, ReCfg                                                      (clause ReExport)         *)
(* Every number in an event was read from the emitted bytes / the parsed object by the harness (struct, byte    *)
(* search, a table CRC); every expected number is computed here from (cls, x).                                   *)
(* Verdicts are TOTAL: an event whose clause fails is reported (<<"REJ", id, index, len, event>>) and the trace   *)
(* goes on, so every field is judged on its own; the two re-export events are judged only when everything read   *)
(* back before them was right (they cannot be right otherwise).  A trace that is not consumed to its end (unknown *)
(* event, malformed record) is reported as STUCK by the postcondition - that is a harness error.                 *)
(*   history trace : Build, then the actions done to ONE object (Export, SetApp, SetTz, ClearTz, SetKs, ClearKs, *)
(*                  Reconfigure, Parse - Mbi.tla "the object's history"), each followed by what was observed:    *)
(*                  after Export the header events above, Fresh (the bytes against those of a fresh object with  *)
(*                  the current settings) and optionally the parse events; after Parse the parse events of the   *)
(*                  new object.  An action event CHANGES the settings x every later event is judged against;      *)
(*                  an action the R-spec does not offer in that state leaves the trace STUCK (harness error).     *)
(*   range trace  : Build, Request, Outcome   (clause Carried: a number a header field cannot hold is refused,     *)
(*                  a number it can hold comes out of the emitted bytes and of the parser unchanged)               *)
EXTENDS Mbi, Json, IOUtils
Traces == ndJsonDeserialize(IOEnv.TRACE_FILE)
VARIABLES tid, l, bad,
          last      \* history traces: the settings at the object's last export (Mbi.tla)
T == Traces[tid].ev
E == T[l]
Is(e) == l <= Len(T) /\ E.ev = e
Limbs(n) == <<n \div 65536, n % 65536>>
I == Ivt(x)
S == Final(x)
Rej == PrintT(<<"REJ", Traces[tid].id, l, Len(T), E.ev>>)
\* judge one event: report if the clause fails, remember it, go on
Judge(ok) == /\ (IF ok THEN TRUE ELSE Rej)          \* IF, not \/ : a disjunction inside an action is explored on both sides
             /\ bad' = (bad \/ ~ok)
             /\ l' = l + 1 /\ UNCHANGED <<tid, cls, x, last>>
\* judged only on an intact prefix
JudgeIfIntact(ok) == /\ (IF bad \/ ok THEN TRUE ELSE Rej)
                     /\ bad' = (bad \/ ~ok)
                     /\ l' = l + 1 /\ UNCHANGED <<tid, cls, x, last>>

TInit == /\ tid \in 1..Len(Traces) /\ l = 1 /\ bad = FALSE
         /\ cls = Traces[tid].cls /\ x = Traces[tid].x /\ last = NoExport
         /\ TLCSet(tid, 1)
\* the case must be one the algebra speaks about (a failure here is the harness's fault)
TBuild == Is("Build") /\ Judge(Modelled /\ InDomain(x) /\ HeaderDescribesOf(x) /\ RoundTripOf(x))
\* ---- HeaderDescribes on real bytes
TExpLen   == Is("ExpLen") /\ Judge(E.len = Sum(S) /\ E.total = Limbs(I.total))
TExpFlags == Is("ExpFlags") /\ Judge(
               /\ E.type = I.type /\ E.tz = I.tz /\ E.sub = I.sub /\ E.hwKey = I.hwKey /\ E.ks = I.ks /\ E.reloc = I.reloc
               /\ E.hasVer = I.hasVer /\ E.ver = (IF I.hasVer THEN I.ver ELSE 0) /\ E.rsvd = 0)
TExpW28   == Is("ExpW28") /\ Judge(
               CASE I.w28 = "zero" -> E.w = <<0, 0>>
                 [] I.w28 = "crc"  -> E.crcOk = TRUE
                 [] I.w28 = "off"  -> E.w = Limbs(I.off) /\ \E k \in 1..Len(E.certAt) : E.certAt[k] = I.off + Shift(x))
TExpLoad  == Is("ExpLoad") /\ Judge(E.load = I.load)
TExpLayout == Is("ExpLayout") /\ Judge(
               LET W == Where(x) IN E.tz = W.tz /\ E.ks = W.ks /\ E.iv = W.iv /\ E.relhdr = W.relhdr /\ E.apptail = W.apptail)
\* the relocation table describes where the images are: addresses count in the image without HMAC / key store (displacement rule)
RelocBase == OffsetOf(Body(x), "reloc")
ImgOff(k) == RelocBase + SumInts([j \in 1..(k - 1) |-> Pad4(x.relocs[j])])
TExpReloc == Is("ExpReloc") /\ Judge(
               IF ~Visible(x) THEN E.found = FALSE ELSE
               /\ E.found = TRUE /\ Len(E.ents) = Len(x.relocs) /\ Len(E.imgAt) = Len(x.relocs)
               /\ E.ptr = RelocBase + RelocImgs(x)
               /\ E.hdrAt = E.ptr + RELENT * Len(x.relocs) + Shift(x)
               /\ E.dstOk = TRUE
               /\ \A k \in 1..Len(x.relocs) : /\ E.ents[k] = <<ImgOff(k), x.relocs[k], 1>>          \* source offset, exact size, LOAD flag
                                              /\ E.imgAt[k] = ImgOff(k) + Shift(x))
\* the image manifest (certificate block v2.1 types): where it is, what it declares
DigCode == CASE DigestLen(x) = 32 -> 1 [] DigestLen(x) = 48 -> 2 [] DigestLen(x) = 64 -> 3 [] OTHER -> 0
TExpManifest == Is("ExpManifest") /\ Judge(
               /\ Manifest # "none"
               /\ E.at = I.off + x.certLen
               /\ E.fw = x.fwVer
               /\ E.total = MANHDR + TzLen(x) + (IF Manifest = "crc" THEN 4 ELSE 0)
               /\ E.flags = (IF DigestLen(x) > 0 THEN <<32768, DigCode>> ELSE <<0, 0>>)
               /\ (Manifest = "crc" => E.crcOk = TRUE)
               /\ (DigestLen(x) > 0 => E.digestOk = TRUE))
\* ---- RoundTrip on the parsed object
TParseOk  == Is("ParseOk") /\ Judge(E.ok = TRUE)
TParseApp == Is("ParseApp") /\ Judge(
               /\ E.len = App(x)
               /\ \A k \in 1..Len(E.diffWords) : E.diffWords[k] \in RomWords       \* nothing but the four ROM-owned words may differ from the input
               /\ E.romWordsZero = TRUE)
TParseTz  == Is("ParseTz") /\ Judge(E.kind = x.tz /\ (x.tz = "custom" => E.dataEq = TRUE))
TParseWords == Is("ParseWords") /\ Judge(E.load = I.load /\ E.imgVer = I.ver /\ E.sub = I.sub /\ E.hwKey = I.hwKey)
TParseKs  == Is("ParseKs") /\ Judge(E.present = I.ks /\ (I.ks => E.dataEq = TRUE))
TParseReloc == Is("ParseReloc") /\ Judge(E.sizes = x.relocs /\ (x.relocs # <<>> => E.dataEq = TRUE))
TParseMisc == Is("ParseMisc") /\ Judge(
               /\ E.fwVer = x.fwVer /\ E.digest = DigestLen(x)
               /\ (Cert # "none" => E.certEq = TRUE) /\ (Layout = "enc" => E.ivEq = TRUE))
\* ---- ReExport: same length, differences only inside signature fields (and what is computed over the ISK signature when it was re-made)
DiffsInside(ranges) == \A k \in 1..Len(E.diffs) : Inside(E.diffs[k], ranges)
TReObj == Is("ReObj") /\ JudgeIfIntact(E.ok = TRUE /\ E.len = Sum(S) /\ DiffsInside(SigRange(x)))
TReCfg == Is("ReCfg") /\ JudgeIfIntact(E.ok = TRUE /\ E.len = Sum(S) /\ DiffsInside(SigRange(x) \cup IskRange(x)))
\* ---- the object's history: an action event moves the settings; guard and effect are the R-spec's (Offers / After)
Act(name) == /\ Is(name) /\ Offers(x, last, E) /\ InDomain(After(x, last, E))
             /\ x' = After(x, last, E) /\ last' = LastAfter(x, last, E)
             /\ bad' = FALSE /\ l' = l + 1 /\ UNCHANGED <<tid, cls>>
TExport == Act("Export")
TSetApp == Act("SetApp")
TSetTz == Act("SetTz")
TClearTz == Act("ClearTz")
TSetKs == Act("SetKs")
TClearKs == Act("ClearKs")
TReconfigure == Act("Reconfigure")
TParse == Act("Parse")
\* EVERY export of a history is the export of a fresh object holding the current settings: same length, the bytes differ at most inside
\* signature fields (and what is computed over a signature that the fresh object had to make again)
TFresh == Is("Fresh") /\ Judge(E.ok = TRUE /\ E.len = Sum(S) /\ DiffsInside(SigRange(x) \cup IskRange(x)))
\* ---- Carried: a requested number is refused or carried, never altered (Mbi.tla "what a header field can hold")
\*      range trace : Build, Request(field, class, w), Outcome(built, present, emitted, parsed)
\* the request must be one of the case space (else the trace is STUCK: harness error); the outcome is judged against the request before it
TRequest == Is("Request") /\ FieldOffered(E.field) /\ E.class \in RangeClasses(E.field) /\ InClass(E.field, E.class, E.w) /\ Judge(TRUE)
TOutcome == Is("Outcome") /\ l > 1 /\ T[l - 1].ev = "Request" /\ IsWide(E.emitted) /\ IsWide(E.parsed)
            /\ Judge(Carried(T[l - 1].field, T[l - 1].w, E))
THist == TRequest \/ TOutcome \/ TExport \/ TSetApp \/ TSetTz \/ TClearTz \/ TSetKs \/ TClearKs \/ TReconfigure \/ TParse \/ TFresh
TNext == THist \/ TBuild \/ TExpLen \/ TExpFlags \/ TExpW28 \/ TExpLoad \/ TExpLayout \/ TExpReloc \/ TExpManifest
         \/ TParseOk \/ TParseApp \/ TParseTz \/ TParseWords \/ TParseKs \/ TParseReloc \/ TParseMisc \/ TReObj \/ TReCfg
Constr == IF TLCGet(tid) < l THEN TLCSet(tid, l) ELSE TRUE
Post == \A i \in 1..Len(Traces) :
          \/ TLCGet(i) - 1 = Len(Traces[i].ev)
          \/ PrintT(<<"STUCK", Traces[i].id, TLCGet(i) - 1, Len(Traces[i].ev),
                      Traces[i].ev[IF TLCGet(i) <= Len(Traces[i].ev) THEN TLCGet(i) ELSE Len(Traces[i].ev)].ev>>)
=============================================================================
