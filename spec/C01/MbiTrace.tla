------------------------------ MODULE MbiTrace ------------------------------
(* TV form of C01.  One trace = one real image built by SPSDK for one (composition, abstract input).            *)
(*   header trace : Build, ExpLen, ExpFlags, ExpW28, ExpLoad, ExpLayout              (clause HeaderDescribes)   *)
(*   parse trace  : Build, ParseOk, ParseApp, ParseTz, ParseWords, ParseKs, ParseReloc, ParseMisc   (RoundTrip) *)
(*                  ReObj, ReCfg                                                      (clause ReExport)         *)
(* Every number in an event was read from the emitted bytes / the parsed object by the harness (struct, hashlib,*)
(* a bit-serial CRC); every expected number is computed here from (cls, x).                                     *)
EXTENDS Mbi, Json, IOUtils
Traces == ndJsonDeserialize(IOEnv.TRACE_FILE)
VARIABLES tid, l
T == Traces[tid].ev
E == T[l]
Is(e) == l <= Len(T) /\ E.ev = e
Adv == l' = l + 1 /\ UNCHANGED <<tid, cls, x>>
Limbs(n) == <<n \div 65536, n % 65536>>
I == Ivt(x)
S == Final(x)

TInit == /\ tid \in 1..Len(Traces) /\ l = 1
         /\ cls = Traces[tid].cls /\ x = Traces[tid].x
         /\ TLCSet(tid, 1)
\* the case must be one the algebra speaks about
TBuild == Is("Build") /\ Modelled /\ InDomain(x) /\ HeaderDescribesOf(x) /\ RoundTripOf(x) /\ Adv
\* ---- HeaderDescribes on real bytes
TExpLen   == Is("ExpLen") /\ E.len = Sum(S) /\ E.total = Limbs(I.total) /\ Adv
TExpFlags == /\ Is("ExpFlags")
             /\ E.type = I.type /\ E.tz = I.tz /\ E.sub = I.sub /\ E.hwKey = I.hwKey /\ E.ks = I.ks /\ E.reloc = I.reloc
             /\ E.hasVer = I.hasVer /\ E.ver = (IF I.hasVer THEN I.ver ELSE 0) /\ E.rsvd = 0
             /\ Adv
TExpW28   == /\ Is("ExpW28")
             /\ CASE I.w28 = "zero" -> E.w = <<0, 0>>
                  [] I.w28 = "crc"  -> E.crcOk = TRUE
                  [] I.w28 = "off"  -> E.w = Limbs(I.off) /\ \E k \in 1..Len(E.certAt) : E.certAt[k] = I.off + Shift(x)
             /\ Adv
TExpLoad  == Is("ExpLoad") /\ E.load = I.load /\ Adv
TExpLayout == /\ Is("ExpLayout")
              /\ LET W == Where(x) IN E.tz = W.tz /\ E.ks = W.ks /\ E.iv = W.iv /\ E.relhdr = W.relhdr /\ E.apptail = W.apptail
              /\ Adv
\* ---- RoundTrip on the parsed object
TParseOk  == Is("ParseOk") /\ E.ok = TRUE /\ Adv
TParseApp == /\ Is("ParseApp")
             /\ E.len = App(x)
             /\ \A k \in 1..Len(E.diffWords) : E.diffWords[k] \in RomWords       \* nothing but the four ROM-owned words may differ from the input
             /\ E.romWordsZero = TRUE
             /\ Adv
TParseTz  == Is("ParseTz") /\ E.kind = x.tz /\ (x.tz = "custom" => E.dataEq = TRUE) /\ Adv
TParseWords == /\ Is("ParseWords")
               /\ E.load = I.load /\ E.imgVer = I.ver /\ E.sub = I.sub /\ E.hwKey = I.hwKey
               /\ Adv
TParseKs  == Is("ParseKs") /\ E.present = I.ks /\ (I.ks => E.dataEq = TRUE) /\ Adv
TParseReloc == Is("ParseReloc") /\ E.sizes = x.relocs /\ (x.relocs # <<>> => E.dataEq = TRUE) /\ Adv
TParseMisc == /\ Is("ParseMisc")
              /\ E.fwVer = x.fwVer /\ E.digest = DigestLen(x)
              /\ (Cert # "none" => E.certEq = TRUE) /\ (Layout = "enc" => E.ivEq = TRUE)
              /\ Adv
\* ---- ReExport: same length, differences only inside signature fields (and what is computed over the ISK signature when it was re-made)
DiffsInside(ranges) == \A k \in 1..Len(E.diffs) : Inside(E.diffs[k], ranges)
TReObj == Is("ReObj") /\ E.ok = TRUE /\ E.len = Sum(S) /\ DiffsInside(SigRange(x)) /\ Adv
TReCfg == Is("ReCfg") /\ E.ok = TRUE /\ E.len = Sum(S) /\ DiffsInside(SigRange(x) \cup IskRange(x)) /\ Adv
TNext == TBuild \/ TExpLen \/ TExpFlags \/ TExpW28 \/ TExpLoad \/ TExpLayout
         \/ TParseOk \/ TParseApp \/ TParseTz \/ TParseWords \/ TParseKs \/ TParseReloc \/ TParseMisc \/ TReObj \/ TReCfg
Constr == IF TLCGet(tid) < l THEN TLCSet(tid, l) ELSE TRUE
Post == \A i \in 1..Len(Traces) :
          \/ TLCGet(i) - 1 = Len(Traces[i].ev)
          \/ PrintT(<<"REJ", Traces[i].id, TLCGet(i) - 1, Len(Traces[i].ev),
                      Traces[i].ev[IF TLCGet(i) <= Len(Traces[i].ev) THEN TLCGet(i) ELSE Len(Traces[i].ev)].ev>>)
=============================================================================
