"""One-off generator of the RSA-4096 key set of C15 (the repository's tests/_data/keys has no RSA-4096 set).
Run once; the generated PEM files are committed key material (test keys, no secrets)."""
import os
from cryptography.hazmat.primitives import serialization as s
from cryptography.hazmat.primitives.asymmetric import rsa

here = os.path.dirname(os.path.abspath(__file__))
for name in ["srk0", "srk1", "srk2", "srk3", "dck"]:
    k = rsa.generate_private_key(public_exponent=65537, key_size=4096)
    open(os.path.join(here, f"{name}_rsa4096.pem"), "wb").write(
        k.private_bytes(s.Encoding.PEM, s.PrivateFormat.PKCS8, s.NoEncryption()))
    open(os.path.join(here, f"{name}_rsa4096.pub"), "wb").write(
        k.public_key().public_bytes(s.Encoding.PEM, s.PublicFormat.SubjectPublicKeyInfo))
