"""One-off generator of the leading-zero keys of C15: per curve (P-256, P-384) one key whose public X coordinate starts with a
zero byte (lzx_*) and one whose Y coordinate does (lzy_*).  A fixed-width coordinate encoding is part of every format the property
talks about (credential, RoT key table hash, SRK records); none of the keys copied from the repository has this shape
(probability 1/128 per coordinate), the P-521 keys of the pool have it already (top byte of a 66-byte coordinate is 0 or 1).

Deterministic: private scalar = SHA-512("verif/c15/<curve>/<name>/<counter>") mod (n - 1) + 1, first counter that gives the shape.
Made with `cryptography` only (never through spsdk.crypto).  Run once:  /venv/bin/python keys/c15/gen_lz.py ; the PEM files are
committed key material (test keys, no secrets).  `--verify` re-derives the keys and compares them with the files."""
import hashlib
import os
import sys

from cryptography.hazmat.primitives import serialization as s
from cryptography.hazmat.primitives.asymmetric import ec

here = os.path.dirname(os.path.abspath(__file__))
CURVES = {
    "ecc256": (ec.SECP256R1(), 32, 0xFFFFFFFF00000000FFFFFFFFFFFFFFFFBCE6FAADA7179E84F3B9CAC2FC632551),
    "ecc384": (ec.SECP384R1(), 48, 0xFFFFFFFFFFFFFFFFFFFFFFFFFFFFFFFFFFFFFFFFFFFFFFFFC7634D81F4372DDF581A0DB248B0A77AECEC196ACCC52973),
}


def derive(ks, name, want):
    curve, size, n = CURVES[ks]
    ctr = 0
    while True:
        d = int.from_bytes(hashlib.sha512(f"verif/c15/{ks}/{name}/{ctr}".encode()).digest(), "big") % (n - 1) + 1
        key = ec.derive_private_key(d, curve)
        nums = key.public_key().public_numbers()
        x0, y0 = nums.x.to_bytes(size, "big")[0], nums.y.to_bytes(size, "big")[0]
        if (want == "x" and x0 == 0 and y0 != 0) or (want == "y" and y0 == 0 and x0 != 0):
            return key, ctr
        ctr += 1


def main():
    verify = "--verify" in sys.argv
    for ks in CURVES:
        for name, want in (("lzx", "x"), ("lzy", "y")):
            key, ctr = derive(ks, name, want)
            pem = key.private_bytes(s.Encoding.PEM, s.PrivateFormat.PKCS8, s.NoEncryption())
            pub = key.public_key().public_bytes(s.Encoding.PEM, s.PublicFormat.SubjectPublicKeyInfo)
            for ext, data in (("pem", pem), ("pub", pub)):
                path = os.path.join(here, f"{name}_{ks}.{ext}")
                if verify:
                    if open(path, "rb").read() != data:
                        raise SystemExit(f"{path} differs from the derived key")
                else:
                    open(path, "wb").write(data)
            print(f"{name}_{ks}: counter {ctr}")


if __name__ == "__main__":
    main()
