"""One-off generator of the intruder's keys of C15: per key set an own debug key (intr_*) and an own root key (evil_*).
Run once; the generated PEM files are committed key material (test keys, no secrets)."""
import os
from cryptography.hazmat.primitives import serialization as s
from cryptography.hazmat.primitives.asymmetric import ec, rsa

here = os.path.dirname(os.path.abspath(__file__))
GEN = {
    "rsa2048": lambda: rsa.generate_private_key(public_exponent=65537, key_size=2048),
    "rsa4096": lambda: rsa.generate_private_key(public_exponent=65537, key_size=4096),
    "ecc256": lambda: ec.generate_private_key(ec.SECP256R1()),
    "ecc384": lambda: ec.generate_private_key(ec.SECP384R1()),
    "ecc521": lambda: ec.generate_private_key(ec.SECP521R1()),
}
for ks, gen in GEN.items():
    for name in ["intr", "evil"]:
        k = gen()
        open(os.path.join(here, f"{name}_{ks}.pem"), "wb").write(k.private_bytes(s.Encoding.PEM, s.PrivateFormat.PKCS8, s.NoEncryption()))
        open(os.path.join(here, f"{name}_{ks}.pub"), "wb").write(k.public_key().public_bytes(s.Encoding.PEM, s.PublicFormat.SubjectPublicKeyInfo))
