"""Key pool of the C05 check (SB 3.1): generated once with `cryptography`, committed; never regenerated at run time.

  p256/root{0..3}.pem  p256/isk.pem      P-256 root-of-trust set and image signing key
  p384/root{0..3}.pem  p384/isk.pem      P-384 root-of-trust set and image signing key
  *.pub.pem                               the matching public keys (SubjectPublicKeyInfo)
  pck128.txt  pck256.txt                  part-common keys (hex)
Run:  /venv/bin/python gen_keys.py   (refuses to overwrite existing files)
"""
import os
import secrets

from cryptography.hazmat.primitives import serialization as ser
from cryptography.hazmat.primitives.asymmetric import ec

HERE = os.path.dirname(os.path.abspath(__file__))


def main():
    for name, curve in (("p256", ec.SECP256R1()), ("p384", ec.SECP384R1())):
        d = os.path.join(HERE, name)
        os.makedirs(d, exist_ok=True)
        for k in ("root0", "root1", "root2", "root3", "isk"):
            p = os.path.join(d, k + ".pem")
            if os.path.exists(p):
                continue
            key = ec.generate_private_key(curve)
            with open(p, "wb") as f:
                f.write(key.private_bytes(ser.Encoding.PEM, ser.PrivateFormat.PKCS8, ser.NoEncryption()))
            with open(os.path.join(d, k + ".pub.pem"), "wb") as f:
                f.write(key.public_key().public_bytes(ser.Encoding.PEM, ser.PublicFormat.SubjectPublicKeyInfo))
    for bits in (128, 256):
        p = os.path.join(HERE, f"pck{bits}.txt")
        if not os.path.exists(p):
            with open(p, "w") as f:
                f.write(secrets.token_hex(bits // 8) + "\n")


if __name__ == "__main__":
    main()
