"""Key pool of the C05 check (SB 3.1): generated once with `cryptography`, committed; never regenerated at run time.

  p256/root{0..3}.pem  p256/isk.pem      P-256 root-of-trust set and image signing key
  p384/root{0..3}.pem  p384/isk.pem      P-384 root-of-trust set and image signing key
  *.pub.pem                               the matching public keys (SubjectPublicKeyInfo)
  p256/root{0..3}_<cls>.pem  p256/isk_<cls>.pem  (same for p384), <cls> in lzx, lzy, lzxy:
                                          keys whose public point has a leading ZERO BYTE in X (lzx), in Y (lzy), in both (lzxy) - about one key
                                          in 128 (lzxy: one in 65536) looks like that, and every documented construction (root key hash, root key
                                          record, ISK certificate) takes the coordinates at their FIXED width.  The private scalar is derived from a
                                          label + counter (SHA-512), the counter is searched upwards: the short-coordinate part of the pool is
                                          reproducible (`cryptography` only, never spsdk.crypto).
  pck128.txt  pck256.txt                  part-common keys (hex)
Run:  /venv/bin/python gen_keys.py   (refuses to overwrite existing files)
"""
import hashlib
import os
import secrets
from concurrent.futures import ProcessPoolExecutor

from cryptography.hazmat.primitives import serialization as ser
from cryptography.hazmat.primitives.asymmetric import ec

HERE = os.path.dirname(os.path.abspath(__file__))


CURVES = {"p256": (ec.SECP256R1, 32, 248), "p384": (ec.SECP384R1, 48, 376)}
CLASSES = ("lzx", "lzy", "lzxy")


def derive_short(job):
    """First key of the label's counter sequence whose point is of the class: (leading byte of X is zero, of Y is zero) = the class, and the
    byte after a leading zero is not zero (exactly one short byte: a clean representative of the class)."""
    kind, name, cls = job
    curve, size, bits = CURVES[kind]   # scalar of `bits` bits: always below the group order
    ctr = 0
    while True:
        d = int.from_bytes(hashlib.sha512(f"verif/sb31/{kind}/{name}_{cls}/{ctr}".encode()).digest() * 2, "big") % (1 << bits) + 1
        key = ec.derive_private_key(d, curve())
        n = key.public_key().public_numbers()
        x, y = n.x.to_bytes(size, "big"), n.y.to_bytes(size, "big")
        if (x[0] == 0, y[0] == 0) == (cls in ("lzx", "lzxy"), cls in ("lzy", "lzxy")) and (x[0] or x[1]) and (y[0] or y[1]):
            return kind, name, cls, d, ctr
        ctr += 1


def short_keys():
    jobs = [(kind, name, cls) for kind in CURVES for name in ("root0", "root1", "root2", "root3", "isk") for cls in CLASSES
            if not os.path.exists(os.path.join(HERE, kind, f"{name}_{cls}.pem"))]
    with ProcessPoolExecutor(max_workers=8) as ex:
        for kind, name, cls, d, ctr in ex.map(derive_short, jobs):
            key = ec.derive_private_key(d, CURVES[kind][0]())
            with open(os.path.join(HERE, kind, f"{name}_{cls}.pem"), "wb") as f:
                f.write(key.private_bytes(ser.Encoding.PEM, ser.PrivateFormat.PKCS8, ser.NoEncryption()))
            with open(os.path.join(HERE, kind, f"{name}_{cls}.pub.pem"), "wb") as f:
                f.write(key.public_key().public_bytes(ser.Encoding.PEM, ser.PublicFormat.SubjectPublicKeyInfo))
            print(f"{kind}/{name}_{cls}: counter {ctr}")


def main():
    for name, curve in (("p256", ec.SECP256R1()), ("p384", ec.SECP384R1())):
        d = os.path.join(HERE, name)
        os.makedirs(d, exist_ok=True)
        for k in ("root0", "root1", "root2", "root3", "isk"):
            p = os.path.join(d, k + ".pem")
            if os.path.exists(p):
                continue
            key = ec.generate_private_key(curve)
            with open(p, "wb") as f:
                f.write(key.private_bytes(ser.Encoding.PEM, ser.PrivateFormat.PKCS8, ser.NoEncryption()))
            with open(os.path.join(d, k + ".pub.pem"), "wb") as f:
                f.write(key.public_key().public_bytes(ser.Encoding.PEM, ser.PublicFormat.SubjectPublicKeyInfo))
    short_keys()
    for bits in (128, 256):
        p = os.path.join(HERE, f"pck{bits}.txt")
        if not os.path.exists(p):
            with open(p, "w") as f:
                f.write(secrets.token_hex(bits // 8) + "\n")


if __name__ == "__main__":
    main()
