"""Key pool of the C03 check (/verif/keys/rot). Generated ONCE with `cryptography` (never through spsdk.crypto):
      /venv/bin/python /verif/keys/rot/gen_keys.py
   Keys      rsa2048_r0..r3  rsa3072_r0..r3  rsa4096_r0..r3         (e = 65537)
             p256_r0..r3  p256_lzx  p256_lzy  p256_isk              (same for p384; p521 without isk)
             lzx / lzy: the X resp. Y coordinate has a leading zero byte (found by a deterministic search over the label
             counter) - fixed-width big-endian coordinates are part of every documented construction.
   EC private scalars are derived from a label (SHA-512), so the EC part of the pool is reproducible. RSA keys cannot be
   derived deterministically with `cryptography`; they are generated once and live in the pool.
   For every key <k> the pool holds every way of supplying it:
     <k>.priv.pem      PKCS8 PEM, no password            <k>.priv.der     PKCS8 DER
     <k>.priv.enc.pem  PKCS8 PEM, password "verif"        <k>.priv.trad.pem  traditional OpenSSL PEM (RSA PRIVATE KEY / EC PRIVATE KEY)
     <k>.pub.pem       SubjectPublicKeyInfo PEM           <k>.pub.der      SubjectPublicKeyInfo DER
     <k>.pub.raw       raw key material: n || e (e minimal = 3 bytes) resp. X || Y (fixed width)
     <k>.crt.pem/.der  self-signed X.509 v3 certificate, not a CA (no key usage extension)
     <k>.ca.pem/.der   self-signed X.509 v3 certificate, CA (basicConstraints CA, keyUsage keyCertSign)
   pool.json           the public numbers of every key (hex) - the numbers are re-read from the key files with
                       `cryptography` at run time; the file only serves setup-time verification of the pool.
"""
import datetime
import hashlib
import json
import os

from cryptography import x509
from cryptography.hazmat.primitives import hashes, serialization
from cryptography.hazmat.primitives.asymmetric import ec, rsa
from cryptography.x509.oid import NameOID

HERE = os.path.dirname(os.path.abspath(__file__))
CURVES = {"p256": (ec.SECP256R1(), 32, 248), "p384": (ec.SECP384R1(), 48, 376), "p521": (ec.SECP521R1(), 66, 512)}
PASSWORD = b"verif"


def derive_ec(kind, label, lead):
    curve, size, bits = CURVES[kind]  # scalar of `bits` bits: always below the group order
    ctr = 0
    while True:
        d = int.from_bytes(hashlib.sha512(f"verif/rot/{kind}/{label}/{ctr}".encode()).digest() * 2, "big") % (1 << bits) + 1
        key = ec.derive_private_key(d, curve)
        n = key.public_key().public_numbers()
        x, y = n.x.to_bytes(size, "big"), n.y.to_bytes(size, "big")
        if lead is None and x[0] != 0 and y[0] != 0:
            return key
        if lead == "x" and x[0] == 0 and y[0] != 0:
            return key
        if lead == "y" and y[0] == 0 and x[0] != 0:
            return key
        ctr += 1


def cert(key, name, ca):
    subject = x509.Name([x509.NameAttribute(NameOID.COMMON_NAME, f"verif-rot-{name}"), x509.NameAttribute(NameOID.ORGANIZATION_NAME, "verif")])
    b = (x509.CertificateBuilder().subject_name(subject).issuer_name(subject).public_key(key.public_key())
         .serial_number(int.from_bytes(hashlib.sha256(f"{name}/{ca}".encode()).digest()[:8], "big") | 1)
         .not_valid_before(datetime.datetime(2020, 1, 1)).not_valid_after(datetime.datetime(2060, 1, 1))
         .add_extension(x509.BasicConstraints(ca=ca, path_length=None), critical=True))
    if ca:
        b = b.add_extension(x509.KeyUsage(digital_signature=True, content_commitment=False, key_encipherment=False, data_encipherment=False,
                                          key_agreement=False, key_cert_sign=True, crl_sign=True, encipher_only=False, decipher_only=False), critical=True)
    alg = hashes.SHA256()
    if isinstance(key, ec.EllipticCurvePrivateKey):
        alg = {256: hashes.SHA256(), 384: hashes.SHA384(), 521: hashes.SHA512()}[key.curve.key_size]
    return b.sign(key, alg)


def write(name, key, info):
    S = serialization

    def w(suffix, data):
        with open(os.path.join(HERE, f"{name}.{suffix}"), "wb") as f:
            f.write(data)

    trad = S.PrivateFormat.TraditionalOpenSSL
    w("priv.pem", key.private_bytes(S.Encoding.PEM, S.PrivateFormat.PKCS8, S.NoEncryption()))
    w("priv.der", key.private_bytes(S.Encoding.DER, S.PrivateFormat.PKCS8, S.NoEncryption()))
    w("priv.enc.pem", key.private_bytes(S.Encoding.PEM, S.PrivateFormat.PKCS8, S.BestAvailableEncryption(PASSWORD)))
    w("priv.trad.pem", key.private_bytes(S.Encoding.PEM, trad, S.NoEncryption()))
    pub = key.public_key()
    w("pub.pem", pub.public_bytes(S.Encoding.PEM, S.PublicFormat.SubjectPublicKeyInfo))
    w("pub.der", pub.public_bytes(S.Encoding.DER, S.PublicFormat.SubjectPublicKeyInfo))
    n = pub.public_numbers()
    if isinstance(pub, rsa.RSAPublicKey):
        a, b = n.n.to_bytes(pub.key_size // 8, "big"), n.e.to_bytes(3, "big")
        info[name] = {"kind": "rsa", "bits": pub.key_size, "a": a.hex(), "b": b.hex()}
    else:
        size = (pub.curve.key_size + 7) // 8
        a, b = n.x.to_bytes(size, "big"), n.y.to_bytes(size, "big")
        info[name] = {"kind": "ecc", "bits": pub.curve.key_size, "a": a.hex(), "b": b.hex()}
    w("pub.raw", a + b)
    for ca, tag in ((False, "crt"), (True, "ca")):
        c = cert(key, name, ca)
        w(f"{tag}.pem", c.public_bytes(S.Encoding.PEM))
        w(f"{tag}.der", c.public_bytes(S.Encoding.DER))


def load_priv(name):
    with open(os.path.join(HERE, f"{name}.priv.pem"), "rb") as f:
        return serialization.load_pem_private_key(f.read(), None)


if __name__ == "__main__":
    info = {}
    for kind in CURVES:
        names = [("r0", None), ("r1", None), ("r2", None), ("r3", None), ("lzx", "x"), ("lzy", "y")]
        if kind != "p521":
            names.append(("isk", None))
        for label, lead in names:
            write(f"{kind}_{label}", derive_ec(kind, label, lead), info)
    for bits in (2048, 3072, 4096):
        for i in range(4):
            name = f"rsa{bits}_r{i}"
            if os.path.exists(os.path.join(HERE, f"{name}.priv.pem")):
                key = load_priv(name)
            else:
                while True:
                    key = rsa.generate_private_key(public_exponent=65537, key_size=bits)
                    if key.public_key().public_numbers().n.bit_length() == bits:
                        break
            write(name, key, info)
    with open(os.path.join(HERE, "pool.json"), "w") as f:
        json.dump(info, f, indent=1, sort_keys=True)
    print(len(info), "keys,", len(os.listdir(HERE)), "files")
