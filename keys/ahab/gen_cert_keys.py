"""Certificate ("image") keys of the C06 check: the public key an AHAB certificate carries (and, with the `container`
permission, the key that signs the container instead of the SRK).  Generated ONCE with `cryptography`:
      /venv/bin/python /verif/keys/ahab/gen_cert_keys.py
   imgkey_<type>.pem / .pub   type in rsa2048 rsa3072 rsa4096 ecc256 ecc384 ecc521   (PKCS8 / SubjectPublicKeyInfo PEM)
   EC scalars are derived from a label exactly as in gen_keys.py (reproducible); RSA keys are generated once and live in the pool.
"""
import os

from cryptography.hazmat.primitives.asymmetric import rsa

from gen_keys import CURVES, HERE, derive_ec, write

if __name__ == "__main__":
    for kind in CURVES:
        write(f"imgkey_{kind}", derive_ec(kind, "imgkey", lead_zero=False))
    for bits in (2048, 3072, 4096):
        if not os.path.exists(os.path.join(HERE, f"imgkey_rsa{bits}.pem")):
            write(f"imgkey_rsa{bits}", rsa.generate_private_key(public_exponent=65537, key_size=bits))
    print(sorted(f for f in os.listdir(HERE) if f.startswith("imgkey")))
