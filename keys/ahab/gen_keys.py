"""Key pool of the C06 check (/verif/keys/ahab). Generated ONCE with `cryptography` (never through spsdk.crypto):
      /venv/bin/python /verif/keys/ahab/gen_keys.py
   srk<i>_<type>.pem / .pub   i = 0..3, type in rsa2048 rsa3072 rsa4096 ecc256 ecc384 ecc521   (PKCS8 / SubjectPublicKeyInfo PEM)
   EC scalars are derived from a label (SHA-512), so the EC part of the pool is reproducible; for every curve key 3 is searched
   for a leading zero byte in X (fixed-width big-endian coordinates are part of the SRK record format).
   RSA keys cannot be derived deterministically with `cryptography`; they are generated once and live in the pool.
"""
import hashlib
import os

from cryptography.hazmat.primitives import serialization
from cryptography.hazmat.primitives.asymmetric import ec, rsa

HERE = os.path.dirname(os.path.abspath(__file__))
CURVES = {"ecc256": (ec.SECP256R1(), 32, 248), "ecc384": (ec.SECP384R1(), 48, 376), "ecc521": (ec.SECP521R1(), 66, 512)}


def write(name, key):
    with open(os.path.join(HERE, name + ".pem"), "wb") as f:
        f.write(key.private_bytes(serialization.Encoding.PEM, serialization.PrivateFormat.PKCS8, serialization.NoEncryption()))
    with open(os.path.join(HERE, name + ".pub"), "wb") as f:
        f.write(key.public_key().public_bytes(serialization.Encoding.PEM, serialization.PublicFormat.SubjectPublicKeyInfo))


def derive_ec(kind, label, lead_zero):
    curve, size, bits = CURVES[kind]  # scalar of `bits` bits: always below the group order
    ctr = 0
    while True:
        d = int.from_bytes(hashlib.sha512(f"verif/ahab/{kind}/{label}/{ctr}".encode()).digest() * 2, "big") % (1 << bits) + 1
        key = ec.derive_private_key(d, curve)
        x = key.public_key().public_numbers().x.to_bytes(size, "big")
        if not lead_zero or x[0] == 0:
            return key
        ctr += 1


if __name__ == "__main__":
    for kind in CURVES:
        for i in range(4):
            write(f"srk{i}_{kind}", derive_ec(kind, f"srk{i}", lead_zero=(i == 3)))
    for bits in (2048, 3072, 4096):
        for i in range(4):
            if not os.path.exists(os.path.join(HERE, f"srk{i}_rsa{bits}.pem")):
                write(f"srk{i}_rsa{bits}", rsa.generate_private_key(public_exponent=65537, key_size=bits))
    print(sorted(os.listdir(HERE)))
